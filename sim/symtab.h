// In-process symbol lookup from our own (non-PIE) ELF: pc -> function name, and whether the pc
// lies in code compiled from /repo (between two marker objects placed around the /repo objects
// at link time).
#pragma once
#include <cstdint>
#include <string>
#include <vector>

namespace sim {
struct Sym { uint64_t addr, size; std::string name; };
class Symtab {
  public:
    bool load(const char *path = "/proc/self/exe");
    const Sym *lookup(uint64_t pc) const;
    std::string func(uint64_t pc) const { const Sym *s = lookup(pc); return s ? s->name : "?"; }
    bool is_repo(uint64_t pc) const { return pc >= repo_lo_ && pc < repo_hi_; }
    uint64_t repo_lo() const { return repo_lo_; }
    uint64_t repo_hi() const { return repo_hi_; }
    const std::vector<Sym> &syms() const { return syms_; }
    // writable static storage (.data / .bss) of the objects compiled from /repo: [lo, hi) pairs, empty if the markers are missing
    struct Range { uint64_t lo = 0, hi = 0; };
    Range repo_data() const { return data_; }
    Range repo_bss() const { return bss_; }
    // .data/.bss of the objects that play the application (bindings, drivers), where a second pair of markers brackets them
    Range caller_data() const { return cdata_; }
    Range caller_bss() const { return cbss_; }
    std::string data_sym(uint64_t addr) const;  // "name+off" of the data object containing addr, or "?"
  private:
    std::vector<Sym> syms_, data_syms_;
    Range data_, bss_, cdata_, cbss_;
    uint64_t repo_lo_ = 0, repo_hi_ = 0;
};
extern Symtab g_symtab;
}  // namespace sim
