// Shared simulator core: PRNG, hashing, small utilities.
// Everything random in a run derives from one 64-bit seed (VERIF_SEED -> run seed -> streams).
#pragma once
#include <cstdarg>
#include <cstdint>
#include <cstdio>
#include <cstdlib>
#include <cstring>
#include <string>
#include <vector>

namespace sim {

static inline uint64_t splitmix64(uint64_t &x) {
    uint64_t z = (x += 0x9e3779b97f4a7c15ULL);
    z = (z ^ (z >> 30)) * 0xbf58476d1ce4e5b9ULL;
    z = (z ^ (z >> 27)) * 0x94d049bb133111ebULL;
    return z ^ (z >> 31);
}

static inline uint64_t mix64(uint64_t a, uint64_t b) {
    uint64_t x = a ^ (b * 0x9e3779b97f4a7c15ULL) ^ 0x632be59bd9b4e019ULL;
    uint64_t s = x;
    splitmix64(s);
    return splitmix64(s);
}

// H(base, engine, i): the seed of run i of a batch; independent of worker count.
static inline uint64_t run_seed(uint64_t base, const char *engine, uint64_t i) {
    uint64_t h = base;
    for (const char *p = engine; *p; ++p) h = mix64(h, (uint8_t)*p);
    return mix64(h, i);
}

struct Rng {
    uint64_t s[2];
    explicit Rng(uint64_t seed = 1) { reseed(seed); }
    void reseed(uint64_t seed) {
        uint64_t x = seed;
        s[0] = splitmix64(x);
        s[1] = splitmix64(x);
        if (!s[0] && !s[1]) s[0] = 1;
    }
    // derive an independent stream
    Rng fork(uint64_t tag) const { return Rng(mix64(s[0] ^ (s[1] << 1), tag)); }
    uint64_t next() {  // xoroshiro128+
        uint64_t s0 = s[0], s1 = s[1], r = s0 + s1;
        s1 ^= s0;
        s[0] = ((s0 << 24) | (s0 >> 40)) ^ s1 ^ (s1 << 16);
        s[1] = (s1 << 37) | (s1 >> 27);
        return r;
    }
    uint64_t below(uint64_t n) { return n ? (next() >> 11) % n : 0; }
    uint64_t range(uint64_t lo, uint64_t hi) { return lo + below(hi - lo + 1); }  // inclusive
    bool chance(double p) { return (next() >> 11) * (1.0 / 9007199254740992.0) < p; }
    bool coin() { return next() >> 63; }
    template <class T> const T &pick(const std::vector<T> &v) { return v[below(v.size())]; }
};

// FNV-1a style 64-bit running digest for event logs
struct Digest {
    uint64_t h = 0xcbf29ce484222325ULL;
    void add(const void *p, size_t n) {
        const uint8_t *b = (const uint8_t *)p;
        for (size_t i = 0; i < n; i++) { h ^= b[i]; h *= 0x100000001b3ULL; }
    }
    void add64(uint64_t v) { add(&v, 8); }
    void adds(const char *s) { add(s, strlen(s)); uint8_t z = 0; add(&z, 1); }
};

static inline std::string hexstr(const uint8_t *p, size_t n) {
    static const char *d = "0123456789abcdef";
    std::string s;
    s.reserve(2 * n);
    for (size_t i = 0; i < n; i++) { s.push_back(d[p[i] >> 4]); s.push_back(d[p[i] & 15]); }
    return s;
}
static inline std::vector<uint8_t> unhex(const std::string &s) {
    std::vector<uint8_t> v;
    auto val = [](char c) -> int { return c <= '9' ? c - '0' : (c | 32) - 'a' + 10; };
    for (size_t i = 0; i + 1 < s.size(); i += 2) v.push_back((uint8_t)(val(s[i]) << 4 | val(s[i + 1])));
    return v;
}

// key=value tokeniser for plan lines: "op a=1 b=xyz"
struct KV {
    std::string op;
    std::vector<std::pair<std::string, std::string>> kv;
    explicit KV(const std::string &line) {
        size_t i = 0, n = line.size();
        auto skip = [&] { while (i < n && (line[i] == ' ' || line[i] == '\t')) i++; };
        skip();
        size_t b = i;
        while (i < n && line[i] != ' ' && line[i] != '\t') i++;
        op = line.substr(b, i - b);
        for (;;) {
            skip();
            if (i >= n) break;
            b = i;
            while (i < n && line[i] != ' ' && line[i] != '\t') i++;
            std::string tok = line.substr(b, i - b);
            size_t eq = tok.find('=');
            if (eq == std::string::npos) kv.emplace_back(tok, "");
            else kv.emplace_back(tok.substr(0, eq), tok.substr(eq + 1));
        }
    }
    bool has(const char *k) const { for (auto &p : kv) if (p.first == k) return true; return false; }
    std::string str(const char *k, const char *def = "") const {
        for (auto &p : kv) if (p.first == k) return p.second;
        return def;
    }
    uint64_t u64(const char *k, uint64_t def = 0) const {
        for (auto &p : kv) if (p.first == k) return strtoull(p.second.c_str(), nullptr, 0);
        return def;
    }
    int64_t i64(const char *k, int64_t def = 0) const {
        for (auto &p : kv) if (p.first == k) return strtoll(p.second.c_str(), nullptr, 0);
        return def;
    }
};

static inline std::vector<std::string> split_lines(const std::string &s) {
    std::vector<std::string> out;
    size_t b = 0;
    while (b < s.size()) {
        size_t e = s.find('\n', b);
        if (e == std::string::npos) e = s.size();
        if (e > b) out.push_back(s.substr(b, e - b));
        b = e + 1;
    }
    return out;
}

static inline std::string strf(const char *fmt, ...) __attribute__((format(printf, 1, 2)));
static inline std::string strf(const char *fmt, ...) {
    char buf[4096];
    va_list ap;
    va_start(ap, fmt);
    int n = vsnprintf(buf, sizeof buf, fmt, ap);
    va_end(ap);
    if (n < (int)sizeof buf) return std::string(buf, n < 0 ? 0 : n);
    std::string s(n + 1, 0);
    va_start(ap, fmt);
    vsnprintf(&s[0], n + 1, fmt, ap);
    va_end(ap);
    s.resize(n);
    return s;
}

}  // namespace sim
