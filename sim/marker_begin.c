/* Placed immediately before the objects compiled from /repo at link time. */
void verif_repo_text_begin(void) {}
char verif_repo_data_begin = 1; /* .data */
char verif_repo_bss_begin;      /* .bss */
