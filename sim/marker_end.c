/* Placed immediately after the objects compiled from /repo at link time. */
void verif_repo_text_end(void) {}
