/* Placed immediately after the objects compiled from /repo at link time. */
void verif_repo_text_end(void) {}
char verif_repo_data_end = 1;
char verif_repo_bss_end;
