// Generic batch driver: seeded plan generation, one forked child per simulated run, crash
// classification, determinism gate, ddmin minimisation, replay files, known findings, evidence.
#pragma once
#include <cstdint>
#include <cstdio>
#include <functional>
#include <map>
#include <set>
#include <string>
#include <vector>

namespace sim {

// Progress page shared between a run (child) and its supervisor (parent). The child keeps it
// current so that when it dies the parent knows what it was doing.
struct Shm {
    volatile uint32_t finished;
    uint64_t digest, events, sim_ns, steps;
    char cur_task[48];
    char context[200];
    char in_hand[96];
    char note[256];
    uint32_t result_len;
    char result[1 << 17];
};
extern Shm *g_shm;

struct RunResult {
    int status = 0;  // 0 held, 1 violation, 2 harness error
    std::string sig, detail;
    uint64_t digest = 0, sched_digest = 0, sim_ns = 0, events = 0;
    bool nontrivial = false;
    std::map<std::string, uint64_t> counters;
    std::string serialize() const;
    static RunResult parse(const std::string &s);
};

struct CrashInfo {
    enum Kind { ASAN, UBSAN, SIGNAL, EXITCODE, TIMEOUT } kind = EXITCODE;
    std::string san_kind, access, repo_func, top_func, raw;
    int sig = 0, exit_code = 0;
    std::string cur_task, context, in_hand, note;
    uint64_t digest = 0, events = 0, sim_ns = 0, steps = 0;
};

struct Aggregate {
    uint64_t runs = 0, nontrivial = 0, sim_ns = 0, events = 0;
    std::set<uint64_t> digests_nontrivial, digests_all, sched_digests;
    std::map<std::string, uint64_t> counters;
    std::map<std::string, uint64_t> sig_counts;       // violation signature -> runs hitting it
    std::map<std::string, uint64_t> sig_first_idx;
    std::map<std::string, std::string> sig_detail;
    uint64_t harness_errors = 0;
    std::string harness_detail;
};

struct Engine {
    std::string name;      // net / rec / reent
    std::string property;  // C18 ...
    std::string level = "exploration";
    std::string rule;      // evidence: how cases are generated and what is non-trivial
    std::vector<std::string> real_components, stub_components, assumptions;
    std::string (*gen)(const std::string &property, uint64_t base_seed, uint64_t idx, bool thorough) = nullptr;
    void (*exec)(const std::string &plan, bool verbose) = nullptr;  // runs in the child; ends with finish_run()
    RunResult (*on_crash)(const CrashInfo &) = nullptr;             // parent side
    // lines that ddmin may delete (default: everything not starting with "plan"/"cfg")
    bool (*deletable)(const std::string &line) = nullptr;
    // optional line simplifier: return candidate replacements for a line
    std::vector<std::string> (*simplify)(const std::string &line) = nullptr;
    // optional second opinion on a violation (e.g. re-run a fault-free twin of the plan); may clear r.status.
    // Must be a pure function of the plan. Runs on the supervisor side.
    void (*confirm)(Engine &e, const std::string &plan, RunResult &r) = nullptr;
    // names of counters that are probes ("this rare thing happened"): zero => warning in evidence
    std::vector<std::string> probes;
    // counters that are expected to stay at zero on a tree where the property holds structurally: non-zero => warning (not a violation)
    std::vector<std::string> expect_zero;
    uint64_t quick_runs = 1000, thorough_runs = 20000;
    double quick_wall_cap = 150, thorough_wall_cap = 1500;
    double run_timeout_s = 60, thorough_run_timeout_s = 0;  // the latter, if set, replaces the former in the thorough tier
};

[[noreturn]] void finish_run(const RunResult &r);  // child side
RunResult run_plan_in_child(Engine &e, const std::string &plan, bool verbose, int log_fd = -1);
RunResult run_plan_confirmed(Engine &e, const std::string &plan, bool verbose = false, int log_fd = -1);  // + Engine::confirm
int driver_main(int argc, char **argv, Engine &e);

}  // namespace sim
