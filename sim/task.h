// Cooperative tasks (fibers with a hand-written x86-64 context switch) on fixed-address,
// 0xA5-prefilled stacks. (glibc's swapcontext is not used: ASan's interceptor for it clears the
// shadow of the whole target stack, which would erase the red zones of live frames, and it costs
// two sigprocmask system calls per switch.)
// The simulator owns which task runs: a task runs only between switch_to() and its next
// yield()/block()/exit, all of which return control to the scheduler context.
#pragma once
#include <cstddef>
#include <cstdint>
#include <functional>
#include <string>
#include <vector>

namespace sim {

struct Task {
    enum State { RUNNABLE, BLOCKED, DONE };
    int id = -1;
    std::string name;
    State state = RUNNABLE;
    int exit_code = 0;
    bool exited_via_exit = false;  // exit() rather than return from entry
    std::function<int()> entry;
    void *sp = nullptr;          // saved stack pointer while switched out
    uint8_t *stack = nullptr;
    size_t stack_size = 0;
    void *asan_fake = nullptr;
    uint64_t switches = 0;
};

class Tasks {
  public:
    static constexpr size_t kStackSize = 512 * 1024;
    static constexpr int kMaxTasks = 8;
    // Reserve and prefill the stacks (call once per process, before fork()ing runs).
    static void prepare_stacks();
    static void refill_stacks(uint8_t fill = 0xA5);  // fill all stacks again (between phases of one run; with another residue byte)

    int spawn(const std::string &name, std::function<int()> entry);
    Task *cur() { return cur_; }
    Task *get(int id) { return tasks_[id]; }
    size_t count() const { return tasks_.size(); }
    std::vector<Task *> &all() { return tasks_; }

    // scheduler side
    void switch_to(Task *t);
    // task side
    void yield();                 // stay RUNNABLE, return to scheduler
    void block();                 // become BLOCKED, return to scheduler
    [[noreturn]] void exit_task(int code, bool via_exit);
    void wake(Task *t) { if (t->state == Task::BLOCKED) t->state = Task::RUNNABLE; }
    bool in_task() const { return cur_ != nullptr; }

  private:
    static void trampoline();
    void to_sched();
    std::vector<Task *> tasks_;
    Task *cur_ = nullptr;
    void *sched_sp_ = nullptr;
    void *sched_fake_ = nullptr;
    const void *sched_stack_bottom_ = nullptr;
    size_t sched_stack_size_ = 0;
};

extern Tasks *g_tasks;

}  // namespace sim
