#include "cov.h"
#include <sys/mman.h>
#include <algorithm>
#include <cstdio>
#include <cstdlib>
#include <set>
#include "symtab.h"

namespace sim {
uint8_t *g_cov = nullptr;
uint32_t g_cov_n = 0;
static const uintptr_t *g_pcs_beg[64], *g_pcs_end[64];
static uint32_t g_pcs_first_guard[64];
static int g_pcs_mods = 0;
static uint32_t g_guard_next = 1;
static constexpr uint32_t kMaxGuards = 1 << 20;

static void ensure_map() {
    if (g_cov) return;
    void *p = mmap(nullptr, kMaxGuards, PROT_READ | PROT_WRITE, MAP_SHARED | MAP_ANONYMOUS, -1, 0);
    if (p == MAP_FAILED) { perror("cov mmap"); _Exit(2); }
    g_cov = (uint8_t *)p;
}

CovReport cov_report() {
    CovReport r;
    std::set<std::string> unc;
    // pcs tables are registered in the same order as guard ranges (one per module/TU group)
    for (int m = 0; m < g_pcs_mods; m++) {
        uint32_t g = g_pcs_first_guard[m] ? g_pcs_first_guard[m] : 1;
        for (const uintptr_t *p = g_pcs_beg[m]; p < g_pcs_end[m]; p += 2, g++) {
            r.edges_total++;
            bool hit = g < g_cov_n && g_cov[g];
            if (hit) r.edges_covered++;
            if (p[1] & 1) {  // function entry
                r.funcs_total++;
                if (hit) r.funcs_covered++;
                else unc.insert(g_symtab.func(p[0]));
            }
        }
    }
    r.uncovered_funcs.assign(unc.begin(), unc.end());
    return r;
}
std::vector<uint64_t> cov_uncovered_pcs_in_entered_functions() {
    std::vector<uint64_t> out;
    for (int m = 0; m < g_pcs_mods; m++) {
        uint32_t g = g_pcs_first_guard[m] ? g_pcs_first_guard[m] : 1;
        bool entered = false;
        for (const uintptr_t *p = g_pcs_beg[m]; p < g_pcs_end[m]; p += 2, g++) {
            bool hit = g < g_cov_n && g_cov[g];
            if (p[1] & 1) entered = hit;
            else if (entered && !hit) out.push_back(p[0]);
        }
    }
    return out;
}
}  // namespace sim

// With -fsanitize-coverage=trace-pc-guard,pc-table clang emits, per translation unit, one call to each
// init function with matching ranges (guards and pcs are parallel arrays), guards init first.
static uint32_t g_last_first = 0;
extern "C" void __sanitizer_cov_trace_pc_guard_init(uint32_t *start, uint32_t *stop) {
    if (start == stop || *start) return;
    sim::ensure_map();
    g_last_first = sim::g_guard_next;
    for (uint32_t *x = start; x < stop; x++) {
        if (sim::g_guard_next >= sim::kMaxGuards) { fprintf(stderr, "HARNESS: too many coverage guards\n"); _Exit(2); }
        *x = sim::g_guard_next++;
    }
    sim::g_cov_n = sim::g_guard_next;
}
extern "C" void __sanitizer_cov_pcs_init(const uintptr_t *pcs_beg, const uintptr_t *pcs_end) {
    if (sim::g_pcs_mods >= 64) return;
    for (int i = 0; i < sim::g_pcs_mods; i++) if (sim::g_pcs_beg[i] == pcs_beg) return;
    sim::g_pcs_beg[sim::g_pcs_mods] = pcs_beg;
    sim::g_pcs_end[sim::g_pcs_mods] = pcs_end;
    sim::g_pcs_first_guard[sim::g_pcs_mods] = g_last_first;
    sim::g_pcs_mods++;
}
