#include "symtab.h"
#include <elf.h>
#include <fcntl.h>
#include <sys/mman.h>
#include <sys/stat.h>
#include <unistd.h>
#include <algorithm>
#include <cstring>

namespace sim {
Symtab g_symtab;

bool Symtab::load(const char *path) {
    int fd = open(path, O_RDONLY);
    if (fd < 0) return false;
    struct stat st;
    if (fstat(fd, &st) < 0) { close(fd); return false; }
    void *m = mmap(nullptr, st.st_size, PROT_READ, MAP_PRIVATE, fd, 0);
    close(fd);
    if (m == MAP_FAILED) return false;
    const uint8_t *base = (const uint8_t *)m;
    const Elf64_Ehdr *eh = (const Elf64_Ehdr *)base;
    if (memcmp(eh->e_ident, ELFMAG, SELFMAG) != 0) { munmap(m, st.st_size); return false; }
    const Elf64_Shdr *sh = (const Elf64_Shdr *)(base + eh->e_shoff);
    for (int i = 0; i < eh->e_shnum; i++) {
        if (sh[i].sh_type != SHT_SYMTAB) continue;
        const Elf64_Sym *sy = (const Elf64_Sym *)(base + sh[i].sh_offset);
        size_t n = sh[i].sh_size / sizeof(Elf64_Sym);
        const char *str = (const char *)(base + sh[sh[i].sh_link].sh_offset);
        for (size_t k = 0; k < n; k++) {
            const char *name = str + sy[k].st_name;
            if (!strcmp(name, "verif_repo_text_begin")) repo_lo_ = sy[k].st_value;
            if (!strcmp(name, "verif_repo_text_end")) repo_hi_ = sy[k].st_value;
            if (!strcmp(name, "verif_repo_data_begin")) data_.lo = sy[k].st_value + 1;
            if (!strcmp(name, "verif_repo_data_end")) data_.hi = sy[k].st_value;
            if (!strcmp(name, "verif_repo_bss_begin")) bss_.lo = sy[k].st_value + 1;
            if (!strcmp(name, "verif_repo_bss_end")) bss_.hi = sy[k].st_value;
            if (!strcmp(name, "verif_caller_data_begin")) cdata_.lo = sy[k].st_value + 1;
            if (!strcmp(name, "verif_caller_data_end")) cdata_.hi = sy[k].st_value;
            if (!strcmp(name, "verif_caller_bss_begin")) cbss_.lo = sy[k].st_value + 1;
            if (!strcmp(name, "verif_caller_bss_end")) cbss_.hi = sy[k].st_value;
            if (ELF64_ST_TYPE(sy[k].st_info) == STT_OBJECT && sy[k].st_shndx != SHN_UNDEF) data_syms_.push_back(Sym{sy[k].st_value, sy[k].st_size, name});
            if (ELF64_ST_TYPE(sy[k].st_info) != STT_FUNC || sy[k].st_shndx == SHN_UNDEF) continue;
            syms_.push_back(Sym{sy[k].st_value, sy[k].st_size, name});
        }
    }
    munmap(m, st.st_size);
    std::sort(syms_.begin(), syms_.end(), [](const Sym &a, const Sym &b) { return a.addr < b.addr; });
    std::sort(data_syms_.begin(), data_syms_.end(), [](const Sym &a, const Sym &b) { return a.addr < b.addr; });
    if (data_.hi < data_.lo) data_ = Range();
    if (bss_.hi < bss_.lo) bss_ = Range();
    if (cdata_.hi < cdata_.lo) cdata_ = Range();
    if (cbss_.hi < cbss_.lo) cbss_ = Range();
    return !syms_.empty();
}

const Sym *Symtab::lookup(uint64_t pc) const {
    auto it = std::upper_bound(syms_.begin(), syms_.end(), pc, [](uint64_t v, const Sym &s) { return v < s.addr; });
    if (it == syms_.begin()) return nullptr;
    --it;
    if (it->size ? pc < it->addr + it->size : pc < it->addr + 4096) return &*it;
    return nullptr;
}
std::string Symtab::data_sym(uint64_t addr) const {
    auto it = std::upper_bound(data_syms_.begin(), data_syms_.end(), addr, [](uint64_t v, const Sym &s) { return v < s.addr; });
    if (it == data_syms_.begin()) return "?";
    --it;
    if (addr < it->addr + std::max<uint64_t>(it->size, 1)) return it->name + "+" + std::to_string(addr - it->addr);
    return "?";
}
}  // namespace sim
