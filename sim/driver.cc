#include "driver.h"
#include <fcntl.h>
#include <poll.h>
#include <signal.h>
#include <sys/mman.h>
#include <sys/personality.h>
#include <sys/prctl.h>
#include <sys/signalfd.h>
#include <sys/socket.h>
#include <sys/stat.h>
#include <sys/syscall.h>
#include <sys/time.h>
#include <sys/wait.h>
#include <unistd.h>
#include <algorithm>
#include <cerrno>
#include <cstring>
#include <sstream>
#include "core.h"
#include "cov.h"
#include "symtab.h"
#include "task.h"

// Sanitizer runtime configuration (non-inline, kept by the linker).
extern "C" __attribute__((used, visibility("default"))) const char *__asan_default_options() {
    return "exitcode=77:detect_leaks=0:abort_on_error=0:symbolize=0:handle_abort=1:handle_segv=1:"
           "handle_sigbus=1:handle_sigfpe=1:handle_sigill=1:allocator_may_return_null=1:"
           "detect_stack_use_after_return=0:check_printf=1:fast_unwind_on_fatal=0:"
           "print_summary=0:print_legend=0:malloc_context_size=2:max_malloc_fill_size=4096:malloc_fill_byte=165";
}
extern "C" __attribute__((used, visibility("default"))) const char *__ubsan_default_options() {
    return "print_stacktrace=1:symbolize=0:halt_on_error=1:exitcode=77";
}

namespace sim {

Shm *g_shm = nullptr;

static double now_s() {
    struct timeval tv;
    gettimeofday(&tv, nullptr);
    return tv.tv_sec + tv.tv_usec * 1e-6;
}

// ---------------------------------------------------------------- RunResult (de)serialisation
static std::string esc(const std::string &s) {
    std::string o;
    for (char c : s) {
        if (c == '\n') o += "\\n";
        else if (c == '\t') o += "\\t";
        else if (c == '\\') o += "\\\\";
        else o += c;
    }
    return o;
}
static std::string unesc(const std::string &s) {
    std::string o;
    for (size_t i = 0; i < s.size(); i++) {
        if (s[i] == '\\' && i + 1 < s.size()) {
            char n = s[++i];
            o += n == 'n' ? '\n' : n == 't' ? '\t' : n;
        } else o += s[i];
    }
    return o;
}
std::string RunResult::serialize() const {
    std::string s = strf("status=%d\tdigest=%llx\tsched=%llx\tsim_ns=%llu\tevents=%llu\tnt=%d", status,
                         (unsigned long long)digest, (unsigned long long)sched_digest, (unsigned long long)sim_ns,
                         (unsigned long long)events, nontrivial ? 1 : 0);
    s += "\tsig=" + esc(sig) + "\tdetail=" + esc(detail);
    for (auto &c : counters) s += "\tc." + c.first + "=" + std::to_string(c.second);
    return s;
}
RunResult RunResult::parse(const std::string &s) {
    RunResult r;
    size_t b = 0;
    while (b <= s.size()) {
        size_t e = s.find('\t', b);
        if (e == std::string::npos) e = s.size();
        std::string tok = s.substr(b, e - b);
        size_t eq = tok.find('=');
        if (eq != std::string::npos) {
            std::string k = tok.substr(0, eq), v = tok.substr(eq + 1);
            if (k == "status") r.status = atoi(v.c_str());
            else if (k == "digest") r.digest = strtoull(v.c_str(), nullptr, 16);
            else if (k == "sched") r.sched_digest = strtoull(v.c_str(), nullptr, 16);
            else if (k == "sim_ns") r.sim_ns = strtoull(v.c_str(), nullptr, 10);
            else if (k == "events") r.events = strtoull(v.c_str(), nullptr, 10);
            else if (k == "nt") r.nontrivial = v == "1";
            else if (k == "sig") r.sig = unesc(v);
            else if (k == "detail") r.detail = unesc(v);
            else if (k.compare(0, 2, "c.") == 0) r.counters[k.substr(2)] = strtoull(v.c_str(), nullptr, 10);
        }
        b = e + 1;
    }
    return r;
}

void finish_run(const RunResult &r) {
    std::string s = r.serialize();
    if (g_shm) {
        size_t n = std::min(s.size(), sizeof(g_shm->result) - 1);
        memcpy(g_shm->result, s.data(), n);
        g_shm->result_len = (uint32_t)n;
        g_shm->finished = 1;
    }
    fflush(nullptr);
    _exit(0);
}

// ---------------------------------------------------------------- sanitizer report parsing
static void parse_san_report(const std::string &txt, CrashInfo &ci) {
    ci.raw = txt.substr(0, 6000);
    size_t p = txt.find("ERROR: AddressSanitizer: ");
    if (p != std::string::npos) {
        ci.kind = CrashInfo::ASAN;
        size_t b = p + strlen("ERROR: AddressSanitizer: ");
        size_t e = txt.find_first_of(" \n:", b);
        ci.san_kind = txt.substr(b, e - b);
        if (ci.san_kind == "attempting") {  // "attempting double-free" / "attempting free on address which was not malloc()-ed"
            size_t e2 = txt.find_first_of(" \n", e + 1);
            ci.san_kind = txt.substr(e + 1, e2 - e - 1);
            if (ci.san_kind == "free") ci.san_kind = "bad-free";
        }
        if (txt.find("\nWRITE of size", p) != std::string::npos || txt.find("caused by a WRITE", p) != std::string::npos) ci.access = "WRITE";
        else if (txt.find("\nREAD of size", p) != std::string::npos || txt.find("caused by a READ", p) != std::string::npos) ci.access = "READ";
    } else if ((p = txt.find("runtime error: ")) != std::string::npos) {
        ci.kind = CrashInfo::UBSAN;
        size_t b = p + strlen("runtime error: ");
        size_t e = txt.find('\n', b);
        std::string msg = txt.substr(b, e - b);
        // normalise: keep letters only of the leading words
        std::string k;
        for (char c : msg) {
            if (isalpha((unsigned char)c)) k += c;
            else if (c == ' ' && !k.empty() && k.back() != '-') k += '-';
            else if (isdigit((unsigned char)c)) break;
        }
        while (!k.empty() && k.back() == '-') k.pop_back();
        ci.san_kind = k.substr(0, 40);
    } else {
        return;
    }
    // frames of the first stack: "    #N 0xADDR ..."
    size_t pos = p;
    bool first = true;
    int last_n = -1;
    while ((pos = txt.find("\n    #", pos)) != std::string::npos) {
        pos += 6;
        int n = atoi(txt.c_str() + pos);
        if (n <= last_n) break;  // next stack (allocation site etc.)
        last_n = n;
        size_t x = txt.find("0x", pos);
        if (x == std::string::npos) break;
        uint64_t pc = strtoull(txt.c_str() + x, nullptr, 16);
        std::string fn = g_symtab.func(pc);
        if (first) { ci.top_func = fn; first = false; }
        if (g_symtab.is_repo(pc)) { ci.repo_func = fn; break; }
    }
}

// ---------------------------------------------------------------- one run in a forked child
static Shm *alloc_shm() {
    void *p = mmap(nullptr, sizeof(Shm), PROT_READ | PROT_WRITE, MAP_SHARED | MAP_ANONYMOUS, -1, 0);
    if (p == MAP_FAILED) { perror("mmap shm"); _Exit(2); }
    return (Shm *)p;
}

// ---------------------------------------------------------------- fork server ("zygote")
// Every run executes in a grandchild forked from one pristine process image that is created at the very start of the
// program, before any argument is parsed and before any plan is read, and that never touches its heap again. Whatever
// process asks for a run (batch worker, supervisor during the gate and the minimisation, a stand-alone replay), the run
// therefore starts from the same heap and the same stacks, and even a program that reads memory it does not own (stray
// pointers, stale stack contents) behaves the same way every time.
namespace {
constexpr int kSlots = 40;
constexpr int kZygotes = 4;  // identical images, each serving every fourth slot (fork() is the serial part of a run)
constexpr size_t kPlanCap = 16u << 20;
struct Slot { int cli = -1, srv = -1; Shm *shm = nullptr; int errfd = -1; char *plan = nullptr; };
Slot g_slots[kSlots];
int g_slot = 0;      // slot of this process: 0 = supervisor / stand-alone, w + 1 = batch worker w
pid_t g_zygote = -1;
struct Req { uint32_t plan_len; uint8_t verbose, keep_stdout; uint8_t pad[2]; };
struct Rep { int32_t kind, value; };  // kind 1: pid of the run, kind 2: its wait status
}  // namespace

[[noreturn]] static void zygote_child(Engine &e, Slot &s, const Req &rq, int sfd) {
    sigset_t m;
    sigemptyset(&m);
    sigaddset(&m, SIGCHLD);
    sigprocmask(SIG_UNBLOCK, &m, nullptr);
    close(sfd);
    g_shm = s.shm;
    dup2(s.errfd, 2);
    if (!rq.keep_stdout) { int dn = open("/dev/null", O_WRONLY); dup2(dn, 1); }
    std::string plan(s.plan, rq.plan_len);
    e.exec(plan, rq.verbose != 0);
    _exit(3);  // exec must not return
}

[[noreturn]] static void zygote_loop(Engine &e, int zid) {
    prctl(PR_SET_PDEATHSIG, SIGKILL);
    for (auto &s : g_slots) { close(s.cli); s.cli = -1; }
    for (int i = 0; i < kSlots; i++) if (i % kZygotes != zid) { close(g_slots[i].srv); g_slots[i].srv = -1; }  // served by a sibling
    sigset_t m;
    sigemptyset(&m);
    sigaddset(&m, SIGCHLD);
    sigprocmask(SIG_BLOCK, &m, nullptr);
    int sfd = signalfd(-1, &m, SFD_NONBLOCK);
    pid_t running[kSlots] = {0};
    for (;;) {
        struct pollfd pf[kSlots + 1];
        for (int i = 0; i < kSlots; i++) pf[i] = {g_slots[i].srv, POLLIN, 0};
        pf[kSlots] = {sfd, POLLIN, 0};
        int n = poll(pf, kSlots + 1, 2000);
        if (n < 0 && errno != EINTR) _exit(0);
        if (getppid() == 1) _exit(0);
        // reap finished runs (also on time-out of the poll, in case a signal was coalesced)
        { struct signalfd_siginfo si; while (read(sfd, &si, sizeof si) == (ssize_t)sizeof si) {} }
        for (;;) {
            int st = 0;
            pid_t p = waitpid(-1, &st, WNOHANG);
            if (p <= 0) break;
            for (int i = 0; i < kSlots; i++)
                if (running[i] == p) {
                    running[i] = 0;
                    Rep rp{2, st};
                    if (g_slots[i].srv >= 0 && send(g_slots[i].srv, &rp, sizeof rp, MSG_NOSIGNAL) < 0) {}
                }
        }
        if (n <= 0) continue;
        bool any_open = false;
        for (int i = 0; i < kSlots; i++) {
            if (g_slots[i].srv < 0) continue;
            if (pf[i].revents & POLLIN) {
                Req rq;
                ssize_t k = recv(g_slots[i].srv, &rq, sizeof rq, MSG_DONTWAIT);
                if (k == 0) { close(g_slots[i].srv); g_slots[i].srv = -1; continue; }
                if (k != (ssize_t)sizeof rq || running[i]) { any_open = true; continue; }
                pid_t c = fork();
                if (c == 0) zygote_child(e, g_slots[i], rq, sfd);
                running[i] = c;
                Rep rp{1, (int32_t)c};
                if (send(g_slots[i].srv, &rp, sizeof rp, MSG_NOSIGNAL) < 0) {}
            } else if (pf[i].revents & (POLLHUP | POLLERR)) {
                close(g_slots[i].srv);
                g_slots[i].srv = -1;
                continue;
            }
            any_open = true;
        }
        if (!any_open) _exit(0);
    }
}

static void zygote_start(Engine &e) {
    if (g_zygote > 0) return;
    for (auto &s : g_slots) {
        int sv[2];
        if (socketpair(AF_UNIX, SOCK_SEQPACKET | SOCK_CLOEXEC, 0, sv)) { perror("socketpair"); _Exit(2); }
        s.cli = sv[0]; s.srv = sv[1];
        s.shm = alloc_shm();
        s.errfd = (int)syscall(SYS_memfd_create, "simerr", 0);
        void *p = mmap(nullptr, kPlanCap, PROT_READ | PROT_WRITE, MAP_SHARED | MAP_ANONYMOUS | MAP_NORESERVE, -1, 0);
        if (p == MAP_FAILED || s.errfd < 0) { perror("zygote slot"); _Exit(2); }
        s.plan = (char *)p;
    }
    fflush(nullptr);
    for (int zid = 0; zid < kZygotes; zid++) {
        pid_t z = fork();
        if (z < 0) { perror("fork"); _Exit(2); }
        if (z == 0) zygote_loop(e, zid);
        g_zygote = z;
    }
    for (auto &s : g_slots) { close(s.srv); s.srv = -1; }
}

// processor time (user + system) a process has consumed so far, in seconds; 0 if it cannot be read
static double child_cpu_s(pid_t pid) {
    char path[64], buf[1024];
    snprintf(path, sizeof path, "/proc/%d/stat", (int)pid);
    FILE *f = fopen(path, "r");
    if (!f) return 0;
    size_t n = fread(buf, 1, sizeof buf - 1, f);
    fclose(f);
    buf[n] = 0;
    const char *p = strrchr(buf, ')');  // (the command name may contain spaces)
    if (!p) return 0;
    unsigned long ut = 0, stt = 0;
    // fields after the name: state ppid pgrp session tty tpgid flags minflt cminflt majflt cmajflt utime stime
    if (sscanf(p + 1, " %*c %*d %*d %*d %*d %*d %*u %*u %*u %*u %*u %lu %lu", &ut, &stt) != 2) return 0;
    return (double)(ut + stt) / (double)sysconf(_SC_CLK_TCK);
}

RunResult run_plan_in_child(Engine &e, const std::string &plan, bool verbose, int log_fd) {
    Slot &sl = g_slots[g_slot];
    Shm *shm = sl.shm;
    int errfd = sl.errfd;
    if (g_zygote <= 0 || !shm || plan.size() > kPlanCap) {
        RunResult r;
        r.status = 2; r.sig = "harness"; r.detail = g_zygote <= 0 ? "fork server not running" : "plan larger than the plan buffer";
        return r;
    }
    memset((void *)shm, 0, offsetof(Shm, result) + 8);
    if (ftruncate(errfd, 0) != 0) {}
    lseek(errfd, 0, SEEK_SET);
    fflush(nullptr);
    memcpy(sl.plan, plan.data(), plan.size());
    Req rq{(uint32_t)plan.size(), (uint8_t)verbose, (uint8_t)(log_fd >= 0 || verbose), {0, 0}};
    Rep rp{0, 0};
    pid_t pid = -1;
    int st = 0;
    bool timed_out = false, server_gone = false;
    if (send(sl.cli, &rq, sizeof rq, MSG_NOSIGNAL) != (ssize_t)sizeof rq || recv(sl.cli, &rp, sizeof rp, 0) != (ssize_t)sizeof rp || rp.kind != 1) server_gone = true;
    else {
        pid = rp.value;
        double t0 = now_s();
        for (;;) {
            struct pollfd pf = {sl.cli, POLLIN, 0};
            int n = poll(&pf, 1, 100);
            if (n > 0) {
                if (recv(sl.cli, &rp, sizeof rp, 0) != (ssize_t)sizeof rp) { server_gone = true; break; }
                if (rp.kind == 2) { st = rp.value; break; }
                continue;
            }
            if (n < 0 && errno != EINTR) { server_gone = true; break; }
            // The budget of a run is processor time, not wall-clock time: on a loaded machine a run that is merely waiting for its turn must
            // not be mistaken for one that hangs (a wall-clock limit of eight times the budget remains, for a child that sleeps for ever)
            if (!timed_out && (child_cpu_s(pid) > e.run_timeout_s || now_s() - t0 > 8.0 * e.run_timeout_s)) { kill(pid, SIGKILL); timed_out = true; t0 = now_s(); }
            else if (timed_out && now_s() - t0 > 30) { server_gone = true; break; }
        }
    }
    if (server_gone) {
        RunResult r;
        r.status = 2; r.sig = "harness"; r.detail = "fork server did not answer";
        return r;
    }
    if (!timed_out && WIFEXITED(st) && WEXITSTATUS(st) == 0 && shm->finished)
        return RunResult::parse(std::string(shm->result, shm->result_len));

    CrashInfo ci;
    ci.cur_task = std::string(shm->cur_task, strnlen(shm->cur_task, sizeof shm->cur_task));
    ci.context = std::string(shm->context, strnlen(shm->context, sizeof shm->context));
    ci.in_hand = std::string(shm->in_hand, strnlen(shm->in_hand, sizeof shm->in_hand));
    ci.note = std::string(shm->note, strnlen(shm->note, sizeof shm->note));
    ci.digest = shm->digest; ci.events = shm->events; ci.sim_ns = shm->sim_ns; ci.steps = shm->steps;
    std::string err;
    {
        off_t n = lseek(errfd, 0, SEEK_END);
        if (n > 0) {
            if (n > 65536) n = 65536;
            err.resize(n);
            if (pread(errfd, &err[0], n, 0) != n) {}
        }
    }
    if (timed_out) {
        ci.kind = CrashInfo::TIMEOUT;
    } else if (WIFSIGNALED(st)) {
        ci.kind = CrashInfo::SIGNAL;
        ci.sig = WTERMSIG(st);
    } else {
        ci.kind = CrashInfo::EXITCODE;
        ci.exit_code = WIFEXITED(st) ? WEXITSTATUS(st) : -1;
    }
    if (!err.empty()) {
        CrashInfo::Kind k0 = ci.kind;
        parse_san_report(err, ci);
        if (ci.kind == k0) ci.raw = err.substr(0, 4000);
    }
    RunResult r;
    if (e.on_crash) r = e.on_crash(ci);
    else {
        r.status = 2;
        r.detail = "child died: " + ci.raw.substr(0, 500);
    }
    if (!r.digest) r.digest = ci.digest;
    if (!r.events) r.events = ci.events;
    if (!r.sim_ns) r.sim_ns = ci.sim_ns;
    return r;
}

RunResult run_plan_confirmed(Engine &e, const std::string &plan, bool verbose, int log_fd) {
    RunResult r = run_plan_in_child(e, plan, verbose, log_fd);
    if (r.status == 1 && e.confirm) e.confirm(e, plan, r);
    return r;
}

// ---------------------------------------------------------------- known findings
struct Known { std::string property, sig, text; };
static std::vector<Known> load_known(const std::string &path) {
    std::vector<Known> out;
    FILE *f = fopen(path.c_str(), "r");
    if (!f) return out;
    char buf[4096];
    while (fgets(buf, sizeof buf, f)) {
        std::string l(buf);
        while (!l.empty() && (l.back() == '\n' || l.back() == '\r')) l.pop_back();
        if (l.compare(0, 8, "finding:") != 0) continue;
        KV kv(l.substr(8));
        Known k;
        // KV takes the first token as op; re-scan all tokens
        std::string first = kv.op;
        auto take = [&](const std::string &tok) {
            size_t eq = tok.find('=');
            if (eq == std::string::npos) return;
            std::string key = tok.substr(0, eq), v = tok.substr(eq + 1);
            if (key == "property") k.property = v;
            if (key == "sig") k.sig = v;
        };
        take(first);
        for (auto &p : kv.kv) take(p.first + "=" + p.second);
        size_t sp = l.find("sig=");
        if (sp != std::string::npos) {
            size_t e = l.find(' ', sp);
            k.text = e == std::string::npos ? "" : l.substr(e + 1);
        }
        if (!k.sig.empty()) out.push_back(k);
    }
    fclose(f);
    return out;
}

// ---------------------------------------------------------------- minimisation (ddmin over plan lines)
static bool default_deletable(const std::string &l) {
    return !(l.compare(0, 4, "plan") == 0 || l.compare(0, 3, "cfg") == 0);
}
static std::string join_lines(const std::vector<std::string> &v) {
    std::string s;
    for (auto &l : v) { s += l; s += '\n'; }
    return s;
}

static std::string minimise(Engine &e, const std::string &plan, const std::string &sig, int budget, int &reruns) {
    auto del = e.deletable ? e.deletable : default_deletable;
    std::vector<std::string> lines = split_lines(plan);
    std::vector<std::string> fixed;
    std::vector<size_t> order;  // positions
    std::vector<std::string> cur = lines;
    double t_min0 = now_s();
    auto test = [&](const std::vector<std::string> &cand) -> bool {
        if (reruns >= budget || now_s() - t_min0 > 90) return false;  // (re-runs of a step-budget violation cost seconds each)
        reruns++;
        RunResult r = run_plan_confirmed(e, join_lines(cand));
        return r.status == 1 && r.sig == sig;
    };
    // ddmin on deletable lines
    size_t n = 2;
    for (;;) {
        std::vector<size_t> idx;
        for (size_t i = 0; i < cur.size(); i++) if (del(cur[i])) idx.push_back(i);
        if (idx.size() < 1 || reruns >= budget) break;
        if (n > idx.size()) n = idx.size();
        bool reduced = false;
        size_t chunk = (idx.size() + n - 1) / n;
        // try removing each chunk (complement test)
        for (size_t c = 0; c < n && !reduced; c++) {
            size_t lo = c * chunk, hi = std::min(idx.size(), lo + chunk);
            if (lo >= hi) continue;
            std::vector<std::string> cand;
            std::set<size_t> drop(idx.begin() + lo, idx.begin() + hi);
            for (size_t i = 0; i < cur.size(); i++) if (!drop.count(i)) cand.push_back(cur[i]);
            if (test(cand)) { cur = cand; reduced = true; n = std::max<size_t>(n - 1, 2); }
        }
        if (!reduced) {
            if (n >= idx.size()) break;
            n = std::min(idx.size(), n * 2);
        }
    }
    // line simplification
    if (e.simplify) {
        bool progress = true;
        while (progress && reruns < budget) {
            progress = false;
            for (size_t i = 0; i < cur.size() && reruns < budget; i++) {
                for (auto &alt : e.simplify(cur[i])) {
                    if (alt == cur[i]) continue;
                    std::vector<std::string> cand = cur;
                    cand[i] = alt;
                    if (test(cand)) { cur = cand; progress = true; break; }
                }
            }
        }
    }
    return join_lines(cur);
}

// ---------------------------------------------------------------- json helpers
static std::string jstr(const std::string &s) {
    std::string o = "\"";
    for (unsigned char c : s) {
        if (c == '"') o += "\\\"";
        else if (c == '\\') o += "\\\\";
        else if (c == '\n') o += "\\n";
        else if (c == '\t') o += "\\t";
        else if (c < 0x20 || c >= 0x7f) o += strf("\\u%04x", c);
        else o += (char)c;
    }
    return o + "\"";
}
static std::string jlist(const std::vector<std::string> &v) {
    std::string o = "[";
    for (size_t i = 0; i < v.size(); i++) { if (i) o += ", "; o += jstr(v[i]); }
    return o + "]";
}

// ---------------------------------------------------------------- main
static void ensure_no_aslr(int argc, char **argv) {
    int cur = personality(0xffffffff);
    if (cur != -1 && (cur & ADDR_NO_RANDOMIZE)) return;
    if (getenv("SIM_REEXEC")) return;  // avoid loops if personality is refused
    if (personality(cur | ADDR_NO_RANDOMIZE) == -1) return;
    char *envp[] = {(char *)"SIM_REEXEC=1", nullptr};
    execve("/proc/self/exe", argv, envp);
    (void)argc;
}

static std::string read_file(const std::string &p) {
    std::string s;
    FILE *f = fopen(p.c_str(), "r");
    if (!f) return s;
    char buf[65536];
    size_t n;
    while ((n = fread(buf, 1, sizeof buf, f)) > 0) s.append(buf, n);
    fclose(f);
    return s;
}

struct WorkerOut { int fd; std::string buf; bool open; };

int driver_main(int argc, char **argv, Engine &e) {
    ensure_no_aslr(argc, argv);
    // the process image every run starts from is fixed here, before anything depends on the command line
    if (!g_symtab.load()) { fprintf(stderr, "HARNESS: cannot load own symbol table\n"); return 2; }
    Tasks::prepare_stacks();
    zygote_start(e);
    std::string mode, planfile, tier = "quick", evidence, known_path, replay_dir = "replays", only;
    uint64_t seed = 20240601, idx = 0, runs = 0;
    int workers = 16;
    bool log = false;
    double wall_cap = 0;
    std::string cov_dump;
    for (int i = 1; i < argc; i++) {
        std::string a = argv[i];
        auto nx = [&]() -> std::string { return i + 1 < argc ? argv[++i] : ""; };
        if (a == "--gen" || a == "--batch" || a == "--selftest-determinism") mode = a;
        else if (a == "--exec") { mode = a; planfile = nx(); }
        else if (a == "--prop") e.property = nx();
        else if (a == "--seed") seed = strtoull(nx().c_str(), nullptr, 0);
        else if (a == "--idx") idx = strtoull(nx().c_str(), nullptr, 0);
        else if (a == "--runs") runs = strtoull(nx().c_str(), nullptr, 0);
        else if (a == "--workers") workers = atoi(nx().c_str());
        else if (a == "--tier") tier = nx();
        else if (a == "--log") log = true;
        else if (a == "--evidence") evidence = nx();
        else if (a == "--known") known_path = nx();
        else if (a == "--replays") replay_dir = nx();
        else if (a == "--wall-cap") wall_cap = atof(nx().c_str());
        else if (a == "--cov-dump") cov_dump = nx();
        else { fprintf(stderr, "unknown argument %s\n", a.c_str()); return 2; }
    }
    bool thorough = tier == "thorough";
    if (thorough && e.thorough_run_timeout_s > 0) e.run_timeout_s = e.thorough_run_timeout_s;
    if (mode == "--gen") {
        fputs(e.gen(e.property, seed, idx, thorough).c_str(), stdout);
        return 0;
    }
    if (mode == "--exec") {
        if (e.thorough_run_timeout_s > e.run_timeout_s) e.run_timeout_s = e.thorough_run_timeout_s;  // the plan may come from the thorough tier
        std::string plan = read_file(planfile);
        if (plan.empty()) { fprintf(stderr, "cannot read plan %s\n", planfile.c_str()); return 2; }
        {   // property is recorded in the plan header
            KV kv(split_lines(plan)[0]);
            if (kv.has("prop")) e.property = kv.str("prop");
        }
        RunResult r = run_plan_confirmed(e, plan, log, log ? 1 : -1);
        printf("RESULT status=%d digest=%016llx events=%llu sim_ns=%llu sig=%s\n", r.status, (unsigned long long)r.digest,
               (unsigned long long)r.events, (unsigned long long)r.sim_ns, r.sig.empty() ? "-" : r.sig.c_str());
        if (!r.detail.empty()) printf("DETAIL %s\n", r.detail.c_str());
        if (r.status == 1) printf("VIOLATION property=%s replay=%s\n", e.property.c_str(), planfile.c_str());
        return r.status;
    }
    if (mode == "--selftest-determinism") {
        // every run twice (different processes); digests must agree
        if (!runs) runs = 2000;
        uint64_t bad = 0;
        int W = std::min(workers, kSlots - 1);
        std::vector<pid_t> pids;
        std::vector<int> fds;
        for (int w = 0; w < W; w++) {
            int pfd[2];
            if (pipe(pfd)) return 2;
            pid_t p = fork();
            if (p == 0) {
                close(pfd[0]);
                g_slot = 1 + w;
                uint64_t mism = 0;
                for (uint64_t i = w; i < runs; i += W) {
                    std::string plan = e.gen(e.property, seed, i, thorough);
                    RunResult a = run_plan_confirmed(e, plan), b = run_plan_confirmed(e, plan);
                    if (a.digest != b.digest || a.sig != b.sig || a.status != b.status) {
                        mism++;
                        fprintf(stderr, "NONDETERMINISM idx=%llu %llx/%llx %s/%s\n", (unsigned long long)i,
                                (unsigned long long)a.digest, (unsigned long long)b.digest, a.sig.c_str(), b.sig.c_str());
                    }
                }
                if (write(pfd[1], &mism, 8) != 8) {}
                _exit(0);
            }
            close(pfd[1]);
            pids.push_back(p);
            fds.push_back(pfd[0]);
        }
        for (int w = 0; w < W; w++) {
            uint64_t m = 0;
            if (read(fds[w], &m, 8) != 8) m = 1;
            bad += m;
            waitpid(pids[w], nullptr, 0);
        }
        printf("selftest-determinism engine=%s prop=%s runs=%llu workers=%d mismatches=%llu\n", e.name.c_str(), e.property.c_str(),
               (unsigned long long)runs, W, (unsigned long long)bad);
        return bad ? 2 : 0;
    }
    if (mode != "--batch") { fprintf(stderr, "need --gen/--exec/--batch\n"); return 2; }

    // ------------------------------------------------------------ batch
    if (!runs) runs = thorough ? e.thorough_runs : e.quick_runs;
    if (wall_cap <= 0) wall_cap = thorough ? e.thorough_wall_cap : e.quick_wall_cap;
    if (workers < 1) workers = 1;
    if (workers > kSlots - 1) workers = kSlots - 1;
    if ((uint64_t)workers > runs) workers = (int)runs;
    double t_start = now_s();
    std::vector<WorkerOut> outs;
    std::vector<pid_t> pids;
    for (int w = 0; w < workers; w++) {
        int pfd[2];
        if (pipe(pfd)) { perror("pipe"); return 2; }
        fflush(nullptr);
        pid_t p = fork();
        if (p < 0) { perror("fork"); return 2; }
        if (p == 0) {
            close(pfd[0]);
            g_slot = 1 + w;
            for (auto &o : outs) close(o.fd);
            FILE *out = fdopen(pfd[1], "w");
            for (uint64_t i = w; i < runs; i += workers) {
                if (now_s() - t_start > wall_cap) break;
                std::string plan = e.gen(e.property, seed, i, thorough);
                double tr0 = now_s();
                RunResult r = run_plan_confirmed(e, plan);
                {   // wall-clock per stratum (engines label runs with a "scen.<name>" counter)
                    uint64_t us = (uint64_t)((now_s() - tr0) * 1e6);
                    for (auto &c : r.counters)
                        if (c.first.compare(0, 5, "scen.") == 0) { r.counters["wall_us." + c.first.substr(5)] = us; break; }
                }
                // determinism sample: every 50th run is executed a second time
                if (i % 50 == 7 % 50) {
                    RunResult r2 = run_plan_confirmed(e, plan);
                    r.counters["_det_checked"] = 1;
                    if (r2.digest != r.digest || r2.sig != r.sig || r2.status != r.status) r.counters["_det_mismatch"] = 1;
                }
                fprintf(out, "%llu\t%s\n", (unsigned long long)i, r.serialize().c_str());
                fflush(out);
            }
            fclose(out);
            _exit(0);
        }
        close(pfd[1]);
        outs.push_back(WorkerOut{pfd[0], "", true});
        pids.push_back(p);
    }
    Aggregate ag;
    std::map<std::string, uint64_t> det;
    size_t open_n = outs.size();
    while (open_n) {
        std::vector<struct pollfd> pf;
        for (auto &o : outs) if (o.open) pf.push_back({o.fd, POLLIN, 0});
        if (poll(pf.data(), pf.size(), 1000) < 0 && errno != EINTR) break;
        for (auto &p : pf) {
            if (!(p.revents & (POLLIN | POLLHUP))) continue;
            WorkerOut *o = nullptr;
            for (auto &x : outs) if (x.fd == p.fd) o = &x;
            char buf[65536];
            ssize_t n = read(p.fd, buf, sizeof buf);
            if (n <= 0) { o->open = false; close(o->fd); open_n--; continue; }
            o->buf.append(buf, n);
            size_t nl;
            while ((nl = o->buf.find('\n')) != std::string::npos) {
                std::string line = o->buf.substr(0, nl);
                o->buf.erase(0, nl + 1);
                size_t tab = line.find('\t');
                uint64_t ridx = strtoull(line.c_str(), nullptr, 10);
                RunResult r = RunResult::parse(line.substr(tab + 1));
                ag.runs++;
                ag.sim_ns += r.sim_ns;
                ag.events += r.events;
                ag.digests_all.insert(r.digest);
                ag.sched_digests.insert(r.sched_digest);
                if (r.nontrivial) { ag.nontrivial++; ag.digests_nontrivial.insert(r.digest); }
                for (auto &c : r.counters) ag.counters[c.first] += c.second;
                if (r.status == 1) {
                    ag.sig_counts[r.sig]++;
                    auto it = ag.sig_first_idx.find(r.sig);
                    if (it == ag.sig_first_idx.end() || ridx < it->second) { ag.sig_first_idx[r.sig] = ridx; ag.sig_detail[r.sig] = r.detail; }
                } else if (r.status == 2) {
                    ag.harness_errors++;
                    if (ag.harness_detail.empty()) ag.harness_detail = strf("idx=%llu ", (unsigned long long)ridx) + r.sig + " " + r.detail;
                }
            }
        }
    }
    for (pid_t p : pids) waitpid(p, nullptr, 0);
    double t_runs = now_s() - t_start;

    int exit_code = 0;
    std::vector<Known> known = known_path.empty() ? std::vector<Known>() : load_known(known_path);
    std::vector<std::string> known_hit, violations_out;
    mkdir(replay_dir.c_str(), 0755);
    if (ag.harness_errors) {
        printf("HARNESS-ERROR engine=%s prop=%s count=%llu first: %s\n", e.name.c_str(), e.property.c_str(),
               (unsigned long long)ag.harness_errors, ag.harness_detail.c_str());
        exit_code = 2;
    }
    if (ag.counters.count("_det_mismatch") && ag.counters["_det_mismatch"]) {
        printf("HARNESS-NONDETERMINISM engine=%s prop=%s mismatches=%llu\n", e.name.c_str(), e.property.c_str(),
               (unsigned long long)ag.counters["_det_mismatch"]);
        exit_code = 2;
    }
    // deterministic order: by first index
    std::vector<std::pair<uint64_t, std::string>> sigs;
    for (auto &s : ag.sig_first_idx) sigs.push_back({s.second, s.first});
    std::sort(sigs.begin(), sigs.end());
    int reported = 0;
    for (auto &sp : sigs) {
        const std::string &sig = sp.second;
        const Known *k = nullptr;
        for (auto &kn : known) if (kn.property == e.property && kn.sig == sig) k = &kn;
        if (k) {
            printf("KNOWN-FINDING: property=%s sig=%s %s (hit in %llu runs)\n", e.property.c_str(), sig.c_str(), k->text.c_str(),
                   (unsigned long long)ag.sig_counts[sig]);
            known_hit.push_back(sig);
            continue;
        }
        if (reported >= 8) { printf("note: further unlisted signature %s (not minimised)\n", sig.c_str()); if (exit_code == 0) exit_code = 1; continue; }
        std::string plan = e.gen(e.property, seed, sp.first, thorough);
        // gate: two more executions, same digest and signature
        RunResult a = run_plan_confirmed(e, plan), b = run_plan_confirmed(e, plan);
        if (a.status != 1 || b.status != 1 || a.sig != sig || b.sig != sig || a.digest != b.digest) {
            printf("HARNESS-NONDETERMINISM engine=%s prop=%s idx=%llu sig=%s second=%s/%s digests=%llx/%llx\n", e.name.c_str(),
                   e.property.c_str(), (unsigned long long)sp.first, sig.c_str(), a.sig.c_str(), b.sig.c_str(),
                   (unsigned long long)a.digest, (unsigned long long)b.digest);
            exit_code = 2;
            continue;
        }
        int reruns = 0;
        std::string small = minimise(e, plan, sig, 300, reruns);
        {   // describe the minimised run, not the original one
            RunResult m = run_plan_confirmed(e, small);
            if (m.status == 1 && m.sig == sig && !m.detail.empty()) ag.sig_detail[sig] = m.detail;
        }
        uint64_t h = 0xcbf29ce484222325ULL;
        for (char c : sig) { h ^= (uint8_t)c; h *= 0x100000001b3ULL; }
        std::string path = strf("%s/%s-%016llx.plan", replay_dir.c_str(), e.property.c_str(), (unsigned long long)h);
        FILE *f = fopen(path.c_str(), "w");
        if (!f) { perror(path.c_str()); exit_code = 2; continue; }
        fputs(small.c_str(), f);
        fprintf(f, "# signature: %s\n# detail: %s\n# minimised from seed=%llu idx=%llu in %d re-runs\n", sig.c_str(),
                esc(ag.sig_detail[sig]).c_str(), (unsigned long long)seed, (unsigned long long)sp.first, reruns);
        fclose(f);
        // final replay in a fresh process (exec of this binary)
        std::string cmd = strf("/proc/self/exe --exec %s >/dev/null 2>&1", path.c_str());
        (void)cmd;
        pid_t rp = fork();
        int rst = 0;
        if (rp == 0) {
            int dn = open("/dev/null", O_WRONLY);
            dup2(dn, 1); dup2(dn, 2);
            char *av[] = {(char *)"/proc/self/exe", (char *)"--exec", (char *)path.c_str(), nullptr};
            char *envp[] = {nullptr};
            execve("/proc/self/exe", av, envp);
            _exit(99);
        }
        waitpid(rp, &rst, 0);
        if (!(WIFEXITED(rst) && WEXITSTATUS(rst) == 1)) {
            printf("HARNESS-NONDETERMINISM engine=%s prop=%s minimised replay %s did not reproduce (status %d)\n", e.name.c_str(),
                   e.property.c_str(), path.c_str(), WIFEXITED(rst) ? WEXITSTATUS(rst) : -1);
            exit_code = 2;
            continue;
        }
        printf("violation: signature=%s runs=%llu first_idx=%llu detail=%s\n", sig.c_str(), (unsigned long long)ag.sig_counts[sig],
               (unsigned long long)sp.first, ag.sig_detail[sig].c_str());
        printf("VIOLATION property=%s replay=%s\n", e.property.c_str(), path.c_str());
        violations_out.push_back(sig);
        reported++;
        if (exit_code == 0) exit_code = 1;
    }
    // a violation that passed the gate and replayed from its file in a fresh process stands, whatever else went wrong in the batch
    if (!violations_out.empty()) exit_code = 1;
    double wall = now_s() - t_start;

    if (!cov_dump.empty()) {
        FILE *cf = fopen(cov_dump.c_str(), "w");
        if (cf) { for (uint64_t pc : cov_uncovered_pcs_in_entered_functions()) fprintf(cf, "0x%llx\n", (unsigned long long)pc); fclose(cf); }
    }
    // ------------------------------------------------------------ evidence
    if (!evidence.empty()) {
        std::string dir = evidence.substr(0, evidence.rfind('/'));
        if (!dir.empty()) mkdir(dir.c_str(), 0755);
        FILE *f = fopen((evidence + ".tmp").c_str(), "w");
        if (!f) { perror("evidence"); return 2; }
        std::vector<std::string> samples;
        for (uint64_t i = 0; i < 3 && i < runs; i++) {
            std::string p = e.gen(e.property, seed, i, thorough);
            if (p.size() > 900) p = p.substr(0, 900) + "\n... (truncated; regenerate with --gen --seed S --idx I)";
            samples.push_back(p);
        }
        fprintf(f, "{\n \"property_id\": %s,\n \"tier\": %s,\n \"seed\": %llu,\n \"level\": %s,\n", jstr(e.property).c_str(),
                jstr(thorough ? "thorough" : "quick").c_str(), (unsigned long long)seed, jstr(e.level).c_str());
        fprintf(f, " \"wall_s\": %.2f,\n \"violations\": %zu,\n", wall, violations_out.size());
        fprintf(f, " \"assumptions\": %s,\n", jlist(e.assumptions).c_str());
        fprintf(f, " \"coverage\": {\n");
        fprintf(f, "  \"evaluations\": %llu,\n  \"distinct_nontrivial\": %zu,\n  \"rule\": %s,\n  \"samples\": %s,\n",
                (unsigned long long)ag.runs, ag.digests_nontrivial.size(), jstr(e.rule).c_str(), jlist(samples).c_str());
        fprintf(f, "  \"engine\": %s,\n  \"runs_requested\": %llu,\n  \"runs_nontrivial\": %llu,\n  \"distinct_event_logs\": %zu,\n  \"distinct_schedules\": %zu,\n",
                jstr(e.name).c_str(), (unsigned long long)runs, (unsigned long long)ag.nontrivial, ag.digests_all.size(), ag.sched_digests.size());
        fprintf(f, "  \"simulated_ns\": %llu,\n  \"simulated_events\": %llu,\n  \"runs_per_hour\": %.0f,\n  \"workers\": %d,\n",
                (unsigned long long)ag.sim_ns, (unsigned long long)ag.events, ag.runs / std::max(t_runs, 1e-3) * 3600.0, workers);
        fprintf(f, "  \"determinism_rechecked_runs\": %llu,\n  \"determinism_mismatches\": %llu,\n",
                (unsigned long long)(ag.counters.count("_det_checked") ? ag.counters["_det_checked"] : 0),
                (unsigned long long)(ag.counters.count("_det_mismatch") ? ag.counters["_det_mismatch"] : 0));
        fprintf(f, "  \"counters\": {");
        bool first = true;
        for (auto &c : ag.counters) {
            if (c.first[0] == '_') continue;
            fprintf(f, "%s\n   %s: %llu", first ? "" : ",", jstr(c.first).c_str(), (unsigned long long)c.second);
            first = false;
        }
        fprintf(f, "\n  },\n");
        std::vector<std::string> zero;
        for (auto &p : e.probes) if (!ag.counters.count(p) || !ag.counters[p]) zero.push_back(p);
        fprintf(f, "  \"probes_at_zero\": %s,\n", jlist(zero).c_str());
        fprintf(f, "  \"known_findings_hit\": %s,\n  \"violation_signatures\": %s,\n", jlist(known_hit).c_str(), jlist(violations_out).c_str());
        {
            CovReport cr = cov_report();
            std::vector<std::string> unc = cr.uncovered_funcs;
            if (unc.size() > 400) unc.resize(400);
            fprintf(f, "  \"repo_edges_total\": %u,\n  \"repo_edges_covered\": %u,\n  \"repo_functions_total\": %u,\n  \"repo_functions_entered\": %u,\n  \"repo_functions_not_entered\": %s,\n",
                    cr.edges_total, cr.edges_covered, cr.funcs_total, cr.funcs_covered, jlist(unc).c_str());
        }
        fprintf(f, "  \"real_code\": %s,\n  \"stubs\": %s\n", jlist(e.real_components).c_str(), jlist(e.stub_components).c_str());
        fprintf(f, " }\n}\n");
        fclose(f);
        rename((evidence + ".tmp").c_str(), evidence.c_str());
    }
    printf("%s: property=%s tier=%s seed=%llu runs=%llu nontrivial=%llu distinct=%zu sim_s=%.1f wall_s=%.1f exit=%d\n", e.name.c_str(),
           e.property.c_str(), tier.c_str(), (unsigned long long)seed, (unsigned long long)ag.runs, (unsigned long long)ag.nontrivial,
           ag.digests_nontrivial.size(), ag.sim_ns * 1e-9, wall, exit_code);
    for (auto &p : e.probes)
        if (!ag.counters.count(p) || !ag.counters[p]) printf("warning: probe %s stayed at zero\n", p.c_str());
    for (auto &p : e.expect_zero)
        if (ag.counters.count(p) && ag.counters[p]) printf("warning: counter %s = %llu (it is zero on the pinned tree; see DESIGN.md)\n", p.c_str(), (unsigned long long)ag.counters[p]);
    return exit_code;
}

}  // namespace sim
