// Edge coverage of code compiled from /repo (clang -fsanitize-coverage=trace-pc-guard,pc-table).
// The bitmap lives in MAP_SHARED memory so that forked runs accumulate into one batch-wide map.
#pragma once
#include <cstdint>
#include <string>
#include <vector>

namespace sim {
extern uint8_t *g_cov;       // one byte per guard (index = guard value), shared across forks
extern uint32_t g_cov_n;     // number of guards + 1
static inline void cov_hit(uint32_t g) { if (g < g_cov_n) g_cov[g] = 1; }
struct CovReport {
    uint32_t edges_total = 0, edges_covered = 0, funcs_total = 0, funcs_covered = 0;
    std::vector<std::string> uncovered_funcs;
};
CovReport cov_report();
// pcs of never-executed edges inside functions that were entered (for finding unexplored branches)
std::vector<uint64_t> cov_uncovered_pcs_in_entered_functions();
}  // namespace sim
