#include "task.h"
#include <sys/mman.h>
#include <cstdio>
#include <cstdlib>
#include <cstring>

// ASan fiber annotations (weak: absent in non-ASan builds)
extern "C" {
void __sanitizer_start_switch_fiber(void **fake_stack_save, const void *bottom, size_t size) __attribute__((weak));
void __sanitizer_finish_switch_fiber(void *fake_stack_save, const void **bottom_old, size_t *size_old) __attribute__((weak));
}

// void sim_ctx_switch(void **save_sp, void *load_sp): save callee-saved registers, the floating-point control state (MXCSR and
// the x87 control word are per thread, and callee-saved by the ABI) and the stack pointer of the current context, continue on the other one.
asm(R"(
    .text
    .globl sim_ctx_switch
    .type sim_ctx_switch,@function
sim_ctx_switch:
    pushq %rbp
    pushq %rbx
    pushq %r12
    pushq %r13
    pushq %r14
    pushq %r15
    subq $8, %rsp
    stmxcsr (%rsp)
    fnstcw 4(%rsp)
    movq %rsp, (%rdi)
    movq %rsi, %rsp
    ldmxcsr (%rsp)
    fldcw 4(%rsp)
    addq $8, %rsp
    popq %r15
    popq %r14
    popq %r13
    popq %r12
    popq %rbx
    popq %rbp
    ret
    .size sim_ctx_switch,.-sim_ctx_switch
)");
extern "C" void sim_ctx_switch(void **save_sp, void *load_sp);

namespace sim {

Tasks *g_tasks = nullptr;

static uint8_t *const kStackBase = (uint8_t *)0x7e0000000000ULL;
static constexpr size_t kGuard = 64 * 1024;
static bool g_stacks_ready = false;

static uint8_t *stack_addr(int i) { return kStackBase + (size_t)i * (Tasks::kStackSize + kGuard) + kGuard; }

void Tasks::prepare_stacks() {
    if (g_stacks_ready) return;
    for (int i = 0; i < kMaxTasks; i++) {
        uint8_t *want = stack_addr(i);
        void *p = mmap(want, kStackSize, PROT_READ | PROT_WRITE, MAP_PRIVATE | MAP_ANONYMOUS | MAP_FIXED_NOREPLACE, -1, 0);
        if (p != want) {
            fprintf(stderr, "HARNESS: cannot map task stack %d at %p\n", i, (void *)want);
            _Exit(2);
        }
        // guard below the stack stays unmapped (PROT_NONE by absence)
        memset(p, 0xA5, kStackSize);
    }
    g_stacks_ready = true;
}

void Tasks::refill_stacks(uint8_t fill) {
    prepare_stacks();
    for (int i = 0; i < kMaxTasks; i++) memset(stack_addr(i), fill, kStackSize);
}

void Tasks::trampoline() {
    Tasks *ts = g_tasks;
    if (__sanitizer_finish_switch_fiber)
        __sanitizer_finish_switch_fiber(nullptr, &ts->sched_stack_bottom_, &ts->sched_stack_size_);
    Task *t = ts->cur_;
    int rc = t->entry();
    ts->exit_task(rc, false);
}

int Tasks::spawn(const std::string &name, std::function<int()> entry) {
    prepare_stacks();
    int id = (int)tasks_.size();
    if (id >= kMaxTasks) { fprintf(stderr, "HARNESS: too many tasks\n"); _Exit(2); }
    Task *t = new Task();
    t->id = id;
    t->name = name;
    t->entry = std::move(entry);
    t->stack = stack_addr(id);
    t->stack_size = kStackSize;
    // initial frame: six callee-saved registers, then the address sim_ctx_switch returns to.
    // After that 'ret' the stack pointer must be 8 modulo 16, as at any function entry.
    uint64_t *top = (uint64_t *)(t->stack + t->stack_size);
    top -= 2;                        // keep the very top words free (stay 0xA5-filled below)
    *--top = 0;                      // fake return address of trampoline (never used)
    *--top = (uint64_t)&Tasks::trampoline;
    for (int i = 0; i < 6; i++) *--top = 0;
    *--top = 0x0000037F00001F80ULL;  // floating-point control state of a fresh thread: MXCSR 0x1F80, x87 control word 0x037F
    t->sp = top;
    tasks_.push_back(t);
    return id;
}

void Tasks::switch_to(Task *t) {
    cur_ = t;
    t->switches++;
    if (__sanitizer_start_switch_fiber) __sanitizer_start_switch_fiber(&sched_fake_, t->stack, t->stack_size);
    sim_ctx_switch(&sched_sp_, t->sp);
    if (__sanitizer_finish_switch_fiber) __sanitizer_finish_switch_fiber(sched_fake_, nullptr, nullptr);
    cur_ = nullptr;
}

void Tasks::to_sched() {
    Task *t = cur_;
    bool dying = t->state == Task::DONE;
    if (__sanitizer_start_switch_fiber)
        __sanitizer_start_switch_fiber(dying ? nullptr : &t->asan_fake, sched_stack_bottom_, sched_stack_size_);
    sim_ctx_switch(&t->sp, sched_sp_);
    if (__sanitizer_finish_switch_fiber)
        __sanitizer_finish_switch_fiber(t->asan_fake, &sched_stack_bottom_, &sched_stack_size_);
}

void Tasks::yield() { to_sched(); }
void Tasks::block() {
    cur_->state = Task::BLOCKED;
    to_sched();
}
void Tasks::exit_task(int code, bool via_exit) {
    Task *t = cur_;
    t->state = Task::DONE;
    t->exit_code = code;
    t->exited_via_exit = via_exit;
    to_sched();
    fprintf(stderr, "HARNESS: dead task resumed\n");
    _Exit(2);
}

}  // namespace sim
