#!/bin/bash
# Run the quick check of its property against every seeded change under seeded/ (or the named ones).
# Applies seeded/<id>/patch.diff to the tree named by SEED_REPO (default /repo; any git worktree of it will do, and leaves
# /repo free for other work), runs ./check against that tree (REPO=...), restores the tree.
cd "$(dirname "$0")/.." || exit 2
out=${SEED_OUT:-build/seeded.tsv}
mkdir -p build
R=${SEED_REPO:-/repo}
git -C $R diff --quiet || { echo "$R has local modifications, refusing"; exit 2; }
restore() { git -C $R checkout -- . 2>/dev/null; git -C $R clean -fdq -- src include examples 2>/dev/null; }
trap restore EXIT
ids="$*"; [ -z "$ids" ] && ids=$(ls seeded)
for id in $ids; do
  prop=$(python3 -c "import json;print(json.load(open('seeded/$id/meta.json'))['property'])")
  if python3 -c "import json,sys;sys.exit(0 if 'status' in json.load(open('seeded/$id/meta.json')) else 1)"; then echo -e "$id\t$prop\tOBSOLETE" | tee -a "$out"; continue; fi
  git -C $R apply "$PWD/seeded/$id/patch.diff" || { echo -e "$id\t$prop\tAPPLY-FAILED" | tee -a "$out"; continue; }
  t0=$(date +%s); log="build/seed-$id.log"
  REPO=$R ./check "${SEED_PROP:-$prop}" --tier ${SEED_TIER:-quick} >"$log" 2>&1; rc=$?
  sig=$(grep -m1 '^violation: signature=' "$log" | sed 's/^violation: signature=\([^ ]*\).*/\1/')
  [ -z "$sig" ] && sig=$(grep -m1 'HARNESS\|BUILD-FAILED' "$log" | cut -c1-80)
  echo -e "$id\t$prop\texit=$rc\t$(( $(date +%s) - t0 ))s\t$sig" | tee -a "$out"
  restore
done
