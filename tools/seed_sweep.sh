#!/bin/bash
# Unchanged-tree silence: run every quick check under several base seeds; any non-zero exit is a false alarm (or a finding).
cd "$(dirname "$0")/.." || exit 2
for seed in "$@"; do
  for p in C05 C16 C18 C19; do
    VERIF_SEED=$seed ./check $p --tier quick > build/sweep-$p-$seed.log 2>&1; rc=$?
    echo "seed=$seed $p exit=$rc $(tail -1 build/sweep-$p-$seed.log | cut -c1-150)"
  done
done
