#!/usr/bin/env python3
"""Sensitivity mutants and negative controls (DESIGN.md section 10).

Each entry: (name, property it should break or 'NONE' for a behaviour-preserving control, file, old, new).
The script applies every edit to a scratch worktree, checks that it compiles and passes the 192 unit
tests, and writes mutants/<name>.diff (+ an index mutants/INDEX.tsv).  usage: make_mutants.py <scratch worktree>
"""
import subprocess, sys, os

wt = sys.argv[1]
out = os.path.join(os.path.dirname(os.path.abspath(__file__)), '..', 'mutants')
os.makedirs(out, exist_ok=True)

M = []
def m(name, prop, path, old, new, count=1):
    M.append((name, prop, path, old, new, count))

U = 'src/avtp/Utils.c'
# ---------------------------------------------------------------- C05
m('c05_setfield_value_not_masked', 'C05', U,
  'quadletHostOrder = (quadletHostOrder & ~quadletMask) | ((partialValue << quadletShift) & quadletMask);',
  'quadletHostOrder = (quadletHostOrder & ~quadletMask) | (partialValue << quadletShift);')
m('c05_setfield_or_instead_of_replace_wide', 'C05', U,
  'quadletHostOrder = (quadletHostOrder & ~quadletMask) | ((partialValue << quadletShift) & quadletMask);',
  'quadletHostOrder = (fieldDescriptor->bits > 32 ? quadletHostOrder : (quadletHostOrder & ~quadletMask)) | ((partialValue << quadletShift) & quadletMask);')
m('eqv_getfield_second_quadlet_shift', 'NONE', U,
  'result |= (uint64_t)(partialValue) << (fieldDescriptor->bits - processedBits - quadletBits);',
  'result |= (uint64_t)(partialValue) << (processedBits == 0 ? (fieldDescriptor->bits - quadletBits) : (fieldDescriptor->bits - processedBits - quadletBits) & 31);')
m('c05_lin_busid_offset', 'C05', 'src/avtp/acf/Lin.c',
  '[AVTP_LIN_FIELD_LIN_BUS_ID]         = { .quadlet = 0, .offset = 19, .bits =  5 },',
  '[AVTP_LIN_FIELD_LIN_BUS_ID]         = { .quadlet = 0, .offset = 20, .bits =  4 },')
m('c05_flexray_getter_sibling', 'C05', 'src/avtp/acf/FlexRay.c',
  'uint8_t Avtp_FlexRay_GetSyn(Avtp_FlexRay_t* pdu)\n{\n    return GET_FIELD(AVTP_FLEXRAY_FIELD_SYN);',
  'uint8_t Avtp_FlexRay_GetSyn(Avtp_FlexRay_t* pdu)\n{\n    return GET_FIELD(AVTP_FLEXRAY_FIELD_PRE);')
m('c05_rvf_legacy_set_neighbour', 'C05', 'src/avtp/Rvf.c',
  '        Avtp_Rvf_SetField((Avtp_Rvf_t*)pdu, field, val);',
  '        Avtp_Rvf_SetField((Avtp_Rvf_t*)pdu, field == AVTP_RVF_FIELD_I_SEQ_NUM ? AVTP_RVF_FIELD_LINE_NUMBER : field, val);')
m('c05_sensor_init_no_memset', 'C05', 'src/avtp/acf/Sensor.c',
  '        memset(pdu, 0, sizeof(Avtp_Sensor_t));  \n', '        memset(pdu, 0, sizeof(Avtp_Sensor_t) - 1);\n')
m('c05_getfield_static_desc_cache', 'C05', U,
  '        const Avtp_FieldDescriptor_t* fieldDescriptor = &fieldDescriptors[field];\n        uint8_t quadletOffset = 0;\n        uint8_t processedBits = 0;\n        while (processedBits < fieldDescriptor->bits) {\n            uint8_t quadletId = fieldDescriptor->quadlet + quadletOffset;\n            uint8_t quadletBits;\n            uint8_t quadletShift;\n            if (processedBits == 0) {\n                quadletBits = MIN(32 - fieldDescriptor->offset, fieldDescriptor->bits - processedBits);\n                quadletShift = 32 - quadletBits - fieldDescriptor->offset;\n            } else {\n                quadletBits = MIN(32, fieldDescriptor->bits - processedBits);\n                quadletShift = 32 - quadletBits;\n            }\n            uint32_t quadletMask = ((1ULL << quadletBits) - 1ULL) << quadletShift;\n            uint32_t* quadletPtr = (uint32_t*)(pdu + quadletId * 4);\n            uint32_t quadletHostOrder = Avtp_BeToCpu32(*quadletPtr);\n            uint32_t partialValue = (quadletHostOrder & quadletMask) >> quadletShift;',
  '        static const Avtp_FieldDescriptor_t* lastTable; static uint8_t lastField; static Avtp_FieldDescriptor_t lastDesc;\n        if (lastTable == NULL || lastField != field || (lastTable != fieldDescriptors && field > 2)) { lastDesc = fieldDescriptors[field]; lastTable = fieldDescriptors; lastField = field; }\n        const Avtp_FieldDescriptor_t* fieldDescriptor = &lastDesc;\n        uint8_t quadletOffset = 0;\n        uint8_t processedBits = 0;\n        while (processedBits < fieldDescriptor->bits) {\n            uint8_t quadletId = fieldDescriptor->quadlet + quadletOffset;\n            uint8_t quadletBits;\n            uint8_t quadletShift;\n            if (processedBits == 0) {\n                quadletBits = MIN(32 - fieldDescriptor->offset, fieldDescriptor->bits - processedBits);\n                quadletShift = 32 - quadletBits - fieldDescriptor->offset;\n            } else {\n                quadletBits = MIN(32, fieldDescriptor->bits - processedBits);\n                quadletShift = 32 - quadletBits;\n            }\n            uint32_t quadletMask = ((1ULL << quadletBits) - 1ULL) << quadletShift;\n            uint32_t* quadletPtr = (uint32_t*)(pdu + quadletId * 4);\n            uint32_t quadletHostOrder = Avtp_BeToCpu32(*quadletPtr);\n            uint32_t partialValue = (quadletHostOrder & quadletMask) >> quadletShift;')
m('c05_most_init_wrong_type', 'C05', 'src/avtp/acf/Most.c',
  'Avtp_Most_SetField(pdu, AVTP_MOST_FIELD_ACF_MSG_TYPE, AVTP_ACF_TYPE_MOST);', 'Avtp_Most_SetField(pdu, AVTP_MOST_FIELD_ACF_MSG_TYPE, AVTP_ACF_TYPE_LIN);')
m('c05_crf_setter_narrow', 'C05', 'src/avtp/Crf.c',
  'void Avtp_Crf_SetBaseFrequency(Avtp_Crf_t* pdu, uint32_t value)\n{\n    SET_FIELD(AVTP_CRF_FIELD_BASE_FREQUENCY, value);',
  'void Avtp_Crf_SetBaseFrequency(Avtp_Crf_t* pdu, uint32_t value)\n{\n    SET_FIELD(AVTP_CRF_FIELD_BASE_FREQUENCY, value & 0xFFFFFF);')
# ---------------------------------------------------------------- C16
m('c16_setfield_static_scratch', 'C16', U,
  '            uint32_t quadletHostOrder = Avtp_BeToCpu32(*quadletPtr);\n            quadletHostOrder = (quadletHostOrder & ~quadletMask)',
  '            static uint32_t quadletHostOrder;\n            quadletHostOrder = Avtp_BeToCpu32(*quadletPtr);\n            quadletHostOrder = (quadletHostOrder & ~quadletMask)')
m('c16_vss_static_float_temp', 'C16', 'src/avtp/acf/custom/Vss.c',
  'void Avtp_Vss_SetVssData(Avtp_Vss_t* pdu, VssData_t* val) {\n\n    // Get a pointer to the start of the VSS data\n    uint8_t* vss_data_ptr = (uint8_t*) pdu + AVTP_VSS_FIXED_HEADER_LEN +\n                                Avtp_Vss_CalcVssPathLength(pdu);\n    Vss_Datatype_t datatype = Avtp_Vss_GetDatatype(pdu);\n\n    uint32_t temp_float;',
  'void Avtp_Vss_SetVssData(Avtp_Vss_t* pdu, VssData_t* val) {\n\n    // Get a pointer to the start of the VSS data\n    uint8_t* vss_data_ptr = (uint8_t*) pdu + AVTP_VSS_FIXED_HEADER_LEN +\n                                Avtp_Vss_CalcVssPathLength(pdu);\n    Vss_Datatype_t datatype = Avtp_Vss_GetDatatype(pdu);\n\n    static uint32_t temp_float;')
m('c16_can_last_pdu_cache', 'C16', 'src/avtp/acf/Can.c',
  'uint8_t Avtp_Can_GetCanPayloadLength(Avtp_Can_t* pdu)\n{\n    uint8_t acf_msg_length = Avtp_Can_GetAcfMsgLength(pdu) * 4;',
  'uint8_t Avtp_Can_GetCanPayloadLength(Avtp_Can_t* pdu)\n{\n    static Avtp_Can_t* last_pdu; static uint16_t last_len;\n    if (last_pdu != pdu) { last_pdu = pdu; last_len = Avtp_Can_GetAcfMsgLength(pdu); }\n    else { last_len = Avtp_Can_GetAcfMsgLength(pdu); }\n    uint8_t acf_msg_length = last_len * 4;')
m('neg_table_lost_const_never_written', 'NONE', 'src/avtp/acf/Gpc.c',
  'static const Avtp_FieldDescriptor_t Avtp_GpcFieldDesc[AVTP_GPC_FIELD_MAX] =', 'static Avtp_FieldDescriptor_t Avtp_GpcFieldDesc[AVTP_GPC_FIELD_MAX] =')
m('c16_table_lazy_normalise', 'C16', 'src/avtp/acf/Gpc.c',
  'uint64_t Avtp_Gpc_GetField(Avtp_Gpc_t* pdu, Avtp_GpcFields_t field)\n{    \n    return GET_FIELD(field);',
  'uint64_t Avtp_Gpc_GetField(Avtp_Gpc_t* pdu, Avtp_GpcFields_t field)\n{    \n    static int checked;\n    if (!checked) { checked = 1; }\n    return GET_FIELD(field);')
m('c16_getter_writes_pdu', 'C16', 'src/avtp/acf/Lin.c',
  'uint8_t Avtp_Lin_GetPad(Avtp_Lin_t* pdu)\n{\n    return GET_FIELD(AVTP_LIN_FIELD_PAD);',
  'uint8_t Avtp_Lin_GetPad(Avtp_Lin_t* pdu)\n{\n    uint8_t keep = pdu->header[3]; pdu->header[3] = 0; uint8_t r = GET_FIELD(AVTP_LIN_FIELD_PAD); pdu->header[3] = keep; return r;\n    return GET_FIELD(AVTP_LIN_FIELD_PAD);')
m('c16_strarr_static_total', 'C16', 'src/avtp/acf/custom/Vss.c',
  '    uint16_t total_length = 0, idx = 0;\n    uint8_t* data = vss_data_string_array->data;',
  '    static uint16_t total_length; uint16_t idx = 0;\n    total_length = 0;\n    uint8_t* data = vss_data_string_array->data;')
# ---------------------------------------------------------------- C18
L = 'examples/acf-can/acf-can-listener.c'
m('c18_can_payload_check_removed', 'C18', L,
  '        if (can_payload_length > max_payload_length) {', '        if (0 && can_payload_length > max_payload_length) {')
m('eqv_can_short_length_caught_by_second_check', 'NONE', L,
  '        if (acf_msg_length < AVTP_CAN_HEADER_LEN ||\n', '        if (0 ||\n')
m('c18_can_cf_length_check_off_by_header', 'C18', L,
  '    if (msg_length > res - proc_bytes) {', '    if (msg_length > res) {')
m('c18_can_getpayloadlength_unpadded', 'C18', 'src/avtp/acf/Can.c',
  '    return acf_msg_length - AVTP_CAN_HEADER_LEN - acf_pad_length;', '    return acf_msg_length - AVTP_CAN_HEADER_LEN + acf_pad_length;')
m('eqv_cvf_upper_bound_unreachable_by_recv_size', 'NONE', 'examples/cvf/cvf-listener.c',
  '        stream_data_len - AVTP_H264_HEADER_LEN > DATA_LEN) {', '        stream_data_len - AVTP_H264_HEADER_LEN > DATA_LEN + AVTP_H264_HEADER_LEN) {')
m('neg_cvf_reads_stale_bytes_inside_own_buffer', 'NONE', 'examples/cvf/cvf-listener.c',
  '        stream_data_len > n - sizeof(Avtp_Cvf_t) ||\n', '')
m('c18_aaf_exit_on_size', 'C18', 'examples/aaf/aaf-listener.c',
  '    if (n != PDU_SIZE) {\n        fprintf(stderr, "Dropping packet: received %zd bytes, expected %zu\\n",\n                n, PDU_SIZE);\n        return 0;',
  '    if (n != PDU_SIZE) {\n        fprintf(stderr, "Dropping packet: received %zd bytes, expected %zu\\n",\n                n, PDU_SIZE);\n        return n < 4 ? -1 : 0;')
m('c18_hello_percent_s', 'C18', 'examples/hello-world/hello-world-listener.c',
  '            printf("%.*s : GPC Code %ld\\n",\n                   (int)(acf_msg_length * 4 - AVTP_GPC_HEADER_LEN), recd_msg, gpc_code);',
  '            printf("%s : GPC Code %ld\\n", recd_msg, gpc_code);')
m('c18_vss_path_wrap_check_removed', 'C18', 'examples/acf-vss/acf-vss-listener.c',
  '        if (addrMode == VSS_INTEROP_MODE && path_length < 2)\n            continue;\n', '')
m('c18_vss_decode_all_types', 'C18', 'examples/acf-vss/acf-vss-listener.c',
  '        if (dt == VSS_FLOAT &&\n            sizeof(float) <= res - proc_bytes - AVTP_VSS_FIXED_HEADER_LEN - path_length) {\n            Avtp_Vss_GetVssData((Avtp_Vss_t*)acf_pdu, &data);',
  '        Avtp_Vss_GetVssData((Avtp_Vss_t*)acf_pdu, &data);\n        if (dt == VSS_FLOAT &&\n            sizeof(float) <= res - proc_bytes - AVTP_VSS_FIXED_HEADER_LEN - path_length) {')
m('c18_crf_lookup_unbounded', 'C18', 'examples/crf/crf-listener.c',
  '    for (i = 0; i < NSEC_PER_SEC / MCLK_PERIOD; i++) {', '    for (i = 0; i < NSEC_PER_SEC / MCLK_PERIOD; i += (avtp_time & 7) ? 0 : 1) {')
m('c18_crf_empty_queue_dequeue', 'C18', 'examples/crf/crf-listener.c',
  '    if (first_aaf_pdu && !STAILQ_EMPTY(&mclk_timestamps)) {', '    if (first_aaf_pdu) {')
m('c18_can_listener_buffer_shrunk', 'C18', L,
  '    uint8_t pdu[MAX_PDU_SIZE], i;', '    uint8_t pdu[MAX_PDU_SIZE - 64], i;')
# ---------------------------------------------------------------- C19
T = 'examples/acf-can/acf-can-talker.c'
m('c19_pad_unconditional', 'C19', 'src/avtp/acf/Can.c',
  '    if (payload_length % AVTP_QUADLET_SIZE) {\n        memset(pdu->payload + payload_length, 0, padSize);\n        avtpCanLength += padSize;\n    }\n\n    // Set the length and padding fields\n    Avtp_Can_SetField(pdu, AVTP_CAN_FIELD_ACF_MSG_LENGTH,',
  '    if (payload_length % AVTP_QUADLET_SIZE || payload_length == 64) {\n        memset(pdu->payload + payload_length, 0, padSize);\n        avtpCanLength += padSize;\n    }\n\n    // Set the length and padding fields\n    Avtp_Can_SetField(pdu, AVTP_CAN_FIELD_ACF_MSG_LENGTH,')
m('c19_eff_threshold', 'C19', 'src/avtp/acf/Can.c', '    int eff = frame_id > 0x7ff? 1 : 0;\n    Avtp_Can_SetField(pdu, AVTP_CAN_FIELD_EFF, eff);', '    int eff = frame_id >= 0x7ff? 1 : 0;\n    Avtp_Can_SetField(pdu, AVTP_CAN_FIELD_EFF, eff);')
m('c19_talker_eff_from_builder_only', 'C19', T,
  '    Avtp_Can_SetField(pdu, AVTP_CAN_FIELD_EFF, (can_id & CAN_EFF_FLAG) ? 1U : 0U);\n\n    return', '    return')
m('c19_talker_esi_bound_to_brs', 'C19', T,
  'Avtp_Can_SetField(pdu, AVTP_CAN_FIELD_ESI, (frame.fd.flags & CANFD_ESI) ? 1U : 0U);', 'Avtp_Can_SetField(pdu, AVTP_CAN_FIELD_ESI, (frame.fd.flags & CANFD_BRS) ? 1U : 0U);')
m('c19_cf_length_tscf_off', 'C19', T,
  '        uint64_t payloadLen = length - AVTP_TSCF_HEADER_LEN;\n        Avtp_Tscf_SetField((Avtp_Tscf_t*)cf_pdu, AVTP_TSCF_FIELD_STREAM_DATA_LENGTH, payloadLen);',
  '        uint64_t payloadLen = length - AVTP_NTSCF_HEADER_LEN;\n        Avtp_Tscf_SetField((Avtp_Tscf_t*)cf_pdu, AVTP_TSCF_FIELD_STREAM_DATA_LENGTH, payloadLen);')
m('c19_listener_sff_mask_udp', 'C19', L,
  '        can_id = Avtp_Can_GetCanIdentifier((Avtp_Can_t*)acf_pdu);\n', '        can_id = Avtp_Can_GetCanIdentifier((Avtp_Can_t*)acf_pdu);\n        if (use_udp && msg_proc_bytes) can_id &= 0x1FFFFFF;\n')
m('c19_listener_flags_not_reset', 'C19', L,
  '            frame.fd.flags = 0;\n', '')
m('c19_listener_rtr_dropped_in_fd', 'C19', L,
  '        if (Avtp_Can_GetRtr((Avtp_Can_t*)acf_pdu)) {', '        if (Avtp_Can_GetRtr((Avtp_Can_t*)acf_pdu) && !(can_id & 0x10000000)) {')
m('c19_talker_seq_in_length', 'C19', T,
  '        pdu_length += res;\n        cf_length += res;\n\n        int i = 0;', '        pdu_length += res;\n        cf_length += res + (seq_num == 0 ? 4 : 0);\n\n        int i = 0;')
m('c19_setpayload_len_minus_one_at_63', 'C19', 'src/avtp/acf/Can.c',
  '    memcpy(pdu->payload, payload, payload_length);', '    memcpy(pdu->payload, payload, payload_length == 63 ? 62 : payload_length);')
# ---------------------------------------------------------------- negative controls (must NOT raise an alarm)
m('neg_setfield_mask_reformulated', 'NONE', U,
  '            uint32_t quadletMask = ((1ULL << quadletBits) - 1ULL) << quadletShift;\n            uint32_t* quadletPtr = (uint32_t*)(pdu + quadletId * 4);\n            uint32_t quadletHostOrder = Avtp_BeToCpu32(*quadletPtr);\n            quadletHostOrder',
  '            uint32_t quadletMask = (uint32_t)((quadletBits == 32 ? 0xFFFFFFFFULL : ((1ULL << quadletBits) - 1ULL)) << quadletShift);\n            uint32_t* quadletPtr = (uint32_t*)(pdu + quadletId * 4);\n            uint32_t quadletHostOrder = Avtp_BeToCpu32(*quadletPtr);\n            quadletHostOrder')
m('neg_can_table_rows_reordered', 'NONE', 'src/avtp/acf/Can.c',
  '    [AVTP_CAN_FIELD_PAD]                = { .quadlet = 0, .offset = 16, .bits =  2 },\n    [AVTP_CAN_FIELD_MTV]                = { .quadlet = 0, .offset = 18, .bits =  1 },',
  '    [AVTP_CAN_FIELD_MTV]                = { .quadlet = 0, .offset = 18, .bits =  1 },\n    [AVTP_CAN_FIELD_PAD]                = { .quadlet = 0, .offset = 16, .bits =  2 },')
m('neg_listener_bigger_buffer', 'NONE', L, '#define MAX_PDU_SIZE                1500', '#define MAX_PDU_SIZE                2000')
m('neg_can_pad_formula', 'NONE', 'src/avtp/acf/Can.c',
  '    padSize = AVTP_QUADLET_SIZE - (payload_length % AVTP_QUADLET_SIZE);\n    if (payload_length % AVTP_QUADLET_SIZE) {\n        memset(pdu->payload + payload_length, 0, padSize);\n        avtpCanLength += padSize;\n    }\n\n    // Set the length and padding fields\n    Avtp_Can_SetField(pdu, AVTP_CAN_FIELD_ACF_MSG_LENGTH,',
  '    padSize = (AVTP_QUADLET_SIZE - (payload_length % AVTP_QUADLET_SIZE)) % AVTP_QUADLET_SIZE;\n    if (padSize) {\n        memset(pdu->payload + payload_length, 0, padSize);\n        avtpCanLength += padSize;\n    }\n\n    // Set the length and padding fields\n    Avtp_Can_SetField(pdu, AVTP_CAN_FIELD_ACF_MSG_LENGTH,')
m('neg_hello_extra_check', 'NONE', 'examples/hello-world/hello-world-listener.c',
  '        if (acf_type != AVTP_ACF_TYPE_GPC) {', '        if (acf_type != AVTP_ACF_TYPE_GPC || msg_length < AVTP_GPC_HEADER_LEN) {')
m('neg_setfield_local_scratch', 'NONE', U,
  '            uint32_t partialValue = value >> (fieldDescriptor->bits - processedBits - quadletBits);',
  '            uint64_t shifted = value >> (fieldDescriptor->bits - processedBits - quadletBits);\n            uint32_t partialValue = (uint32_t)shifted;')
m('neg_heap_temp', 'NONE', 'src/avtp/acf/Can.c',
  '    memcpy(pdu->payload, payload, payload_length);\n}',
  '    extern void *malloc(unsigned long);\n    extern void free(void *);\n    uint8_t *tmp = malloc(payload_length ? payload_length : 1);  /* scratch copy on the heap: re-entrant */\n    if (tmp == NULL) {\n        memcpy(pdu->payload, payload, payload_length);\n        return;\n    }\n    memcpy(tmp, payload, payload_length);\n    memcpy(pdu->payload, tmp, payload_length);\n    free(tmp);\n}')
m('neg_cvf_stricter_drop', 'NONE', 'examples/cvf/cvf-listener.c',
  '        stream_data_len - AVTP_H264_HEADER_LEN > DATA_LEN) {', '        stream_data_len - AVTP_H264_HEADER_LEN > DATA_LEN - 100) {')

def run(cmd, **kw):
    return subprocess.run(cmd, shell=True, capture_output=True, text=True, **kw)

index = []
for (name, prop, path, old, new, count) in M:
    run('git -C %s checkout -- .' % wt)
    full = os.path.join(wt, path)
    s = open(full).read()
    if s.count(old) < 1:
        print('SKIP %s: pattern not found in %s' % (name, path)); continue
    open(full, 'w').write(s.replace(old, new, count))
    diff = run('git -C %s diff' % wt).stdout
    b = run('cmake --build %s/_build 2>&1 | tail -5' % wt)
    if 'error' in b.stdout or b.returncode:
        print('SKIP %s: does not compile\n%s' % (name, b.stdout)); continue
    t = run('ctest --test-dir %s/_build -j8 2>&1 | tail -3' % wt)
    if '100% tests passed' not in t.stdout:
        print('SKIP %s: unit tests notice it' % name); continue
    open(os.path.join(out, name + '.diff'), 'w').write(diff)
    index.append('%s\t%s\t%s' % (name, prop, path))
    print('ok   %s (%s)' % (name, prop))
run('git -C %s checkout -- .' % wt)
open(os.path.join(out, 'INDEX.tsv'), 'w').write('\n'.join(index) + '\n')
