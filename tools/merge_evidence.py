#!/usr/bin/env python3
"""Fold the evidence of a second build's batch into the property's evidence file.

usage: merge_evidence.py <main evidence.json> <second evidence.json> <key>

The main file keeps its own counts; the second batch is recorded under coverage[<key>] with its runs, distinct
non-trivial runs, counters and components; violations and wall time are summed.
"""
import json
import sys

main_p, second_p, key = sys.argv[1:4]
m = json.load(open(main_p))
s = json.load(open(second_p))
c = s.get('coverage', {})
m.setdefault('coverage', {})[key] = {
    'evaluations': c.get('evaluations'), 'distinct_nontrivial': c.get('distinct_nontrivial'), 'rule': c.get('rule'),
    'counters': c.get('counters'), 'real_code': c.get('real_code'), 'stubs': c.get('stubs'), 'simulated': c.get('simulated'),
    'probes_at_zero': c.get('probes_at_zero'), 'determinism_rechecks': c.get('determinism_rechecks'), 'wall_s': s.get('wall_s'),
    'violations': s.get('violations', 0), 'samples': (c.get('samples') or [])[:1],
}
m['violations'] = int(m.get('violations', 0)) + int(s.get('violations', 0))
m['wall_s'] = float(m.get('wall_s', 0)) + float(s.get('wall_s', 0))
json.dump(m, open(main_p, 'w'), indent=1)
