#!/bin/bash
# The generated call bindings once more, compiled the way an application compiles its calls: behind the system headers that the
# repository's own example programs include (<linux/can.h>, <arpa/inet.h>, <sys/queue.h> ...). Macros and declarations of those
# headers are part of the context in which a public header is read (`#ifdef CAN_EFF_FLAG` ...). Defined symbols get the prefix S_.
# usage: build_bind_variant.sh <output.o> <workdir> <cc> "<cflags>" <examples dir> <binding sources...>
set -e
out=$1; work=$2; cc=$3; cflags=$4; ex=$5; shift 5
mkdir -p "$work"
echo 'int verif_unused;' > "$work/empty.c"
: > "$work/app.h"
# every system header some example includes, most frequent first; one that does not compile together with the others is left out
grep -rhoE '^[[:space:]]*#[[:space:]]*include[[:space:]]*<[^>]+>' "$ex" 2>/dev/null | sed -E 's/.*<([^>]+)>.*/\1/' | sort | uniq -c | sort -k1,1nr -k2 | awk '{print $2}' > "$work/sys.list"
while read -r h; do
  cp "$work/app.h" "$work/try.h"; echo "#include <$h>" >> "$work/try.h"
  if $cc $cflags -include "$work/try.h" -fsyntax-only "$work/empty.c" >/dev/null 2>&1; then cp "$work/try.h" "$work/app.h"; fi
done < "$work/sys.list"
objs=""
for src in "$@"; do
  n=$(basename "$src" .c)
  $cc $cflags -include "$work/app.h" -c "$src" -o "$work/$n.tmp.o"
  nm -g --defined-only "$work/$n.tmp.o" | awk '$2 ~ /^[TDBRC]$/ {print $3" S_"$3}' > "$work/$n.map"
  objcopy --redefine-syms="$work/$n.map" "$work/$n.tmp.o" "$work/$n.o"
  objs="$objs $work/$n.o"
done
# references between the binding objects (bind_all.c names the per-format tables) follow the renaming
cat "$work"/*.map | sort -u > "$work/all.map"
robjs=""
for o in $objs; do objcopy --redefine-syms="$work/all.map" "$o" "$o.r"; robjs="$robjs $o.r"; done
ld -r -o "$out" $robjs
