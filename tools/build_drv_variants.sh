#!/bin/bash
# The hand-written drivers once more, as an application translation unit that includes EVERY public header before the one it needs:
# variant A_ with the headers in alphabetical order, variant Z_ in the reverse order. What a header leaves behind for the headers
# after it (a #pragma pack that is never popped, a macro, a typedef) then reaches the declarations the driver uses, exactly as in
# an application that includes several headers. The defined symbols get the prefix, everything lands in one relocatable object.
# usage: build_drv_variants.sh <output.o> <workdir> <cc> "<cflags>" <all_headers_az.h> <all_headers_za.h> <driver sources...>
set -e
out=$1; work=$2; cc=$3; cflags=$4; az=$5; za=$6; shift 6
mkdir -p "$work"
objs=""
# Not every pair of public headers can be included together (some define the same names: the subject of another property), so
# the list is thinned greedily: a header stays if the list up to and including it still compiles.
thin() {  # <list file> <result file>
  : > "$2"
  echo 'int verif_unused;' > "$work/empty.c"
  while read -r line; do
    case "$line" in '#include'*) ;; *) continue;; esac
    cp "$2" "$work/try.h"; echo "$line" >> "$work/try.h"
    if $cc $cflags -include "$work/try.h" -fsyntax-only "$work/empty.c" >/dev/null 2>&1; then cp "$work/try.h" "$2"; fi
  done < "$1"
}
thin "$az" "$work/az.h"
thin "$za" "$work/za.h"
for v in A:$work/az.h Z:$work/za.h; do
  pfx=${v%%:*}_; inc=${v#*:}
  for src in "$@"; do
    n=$(basename "$src" .c)
    $cc $cflags -include "$inc" -c "$src" -o "$work/$pfx$n.tmp.o"
    nm -g --defined-only "$work/$pfx$n.tmp.o" | awk '$2 ~ /^[TDBRC]$/ {print $3" "p$3}' p=$pfx > "$work/$pfx$n.map"
    objcopy --redefine-syms="$work/$pfx$n.map" "$work/$pfx$n.tmp.o" "$work/$pfx$n.o"
    objs="$objs $work/$pfx$n.o"
  done
done
ld -r -o "$out" $objs
