#!/bin/bash
# Apply each mutant of mutants/INDEX.tsv (or the named ones) to the tree named by MUT_REPO (default /repo; a scratch git
# worktree of it leaves /repo free), run the quick check of its property (all four checks for negative controls), restore the tree.
cd "$(dirname "$0")/.." || exit 2
out=${MUT_OUT:-build/mutants.tsv}
mkdir -p build
sel="$*"
R=${MUT_REPO:-/repo}
git -C $R diff --quiet || { echo "$R has local modifications, refusing"; exit 2; }
trap 'git -C $R checkout -- . 2>/dev/null' EXIT
while IFS=$'\t' read -r name prop path; do
  [ -z "$name" ] && continue
  if [ -n "$sel" ] && ! echo " $sel " | grep -q " $name "; then continue; fi
  git -C $R apply "$PWD/mutants/$name.diff" || { echo -e "$name\t$prop\tAPPLY-FAILED" | tee -a "$out"; continue; }
  props="$prop"; [ "$prop" = NONE ] && props="C05 C16 C18 C19"
  for p in $props; do
    t0=$(date +%s)
    log="build/mut-$name-$p.log"
    REPO=$R ./check "$p" --tier quick >"$log" 2>&1; rc=$?
    sig=$(grep -m1 '^violation: signature=' "$log" | sed 's/^violation: signature=\([^ ]*\).*/\1/')
    [ -z "$sig" ] && sig=$(grep -m1 'HARNESS\|BUILD-FAILED' "$log" | cut -c1-80)
    echo -e "$name\t$prop\t$p\texit=$rc\t$(( $(date +%s) - t0 ))s\t$sig" | tee -a "$out"
  done
  git -C $R checkout -- .
done < mutants/INDEX.tsv
