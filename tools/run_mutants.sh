#!/bin/bash
# Apply each mutant of mutants/INDEX.tsv (or the named ones) to /repo, run the quick check of its
# property (all four checks for negative controls), restore /repo. Never leaves /repo modified.
cd "$(dirname "$0")/.." || exit 2
out=${MUT_OUT:-build/mutants.tsv}
mkdir -p build
sel="$*"
git -C /repo diff --quiet || { echo "/repo has local modifications, refusing"; exit 2; }
trap 'git -C /repo checkout -- . 2>/dev/null' EXIT
while IFS=$'\t' read -r name prop path; do
  [ -z "$name" ] && continue
  if [ -n "$sel" ] && ! echo " $sel " | grep -q " $name "; then continue; fi
  git -C /repo apply "$PWD/mutants/$name.diff" || { echo -e "$name\t$prop\tAPPLY-FAILED" | tee -a "$out"; continue; }
  props="$prop"; [ "$prop" = NONE ] && props="C05 C16 C18 C19"
  for p in $props; do
    t0=$(date +%s)
    log="build/mut-$name-$p.log"
    ./check "$p" --tier quick >"$log" 2>&1; rc=$?
    sig=$(grep -m1 '^violation: signature=' "$log" | sed 's/^violation: signature=\([^ ]*\).*/\1/')
    [ -z "$sig" ] && sig=$(grep -m1 'HARNESS\|BUILD-FAILED' "$log" | cut -c1-80)
    echo -e "$name\t$prop\t$p\texit=$rc\t$(( $(date +%s) - t0 ))s\t$sig" | tee -a "$out"
  done
  git -C /repo checkout -- .
done < mutants/INDEX.tsv
