#!/usr/bin/env python3
"""Generate call bindings for every public function of every Open1722 header.

usage: gen_bindings.py <repo include dir> <spec/fields.def> <out dir>

For each format of fields.def one C file bind_<Format>.c is written that includes only that
format's public header and exports a BindFormat table (see bindings/bind.h); bind_all.c collects
them. Accessors are bound to reference fields by normalised name (GetStreamDataLength <->
STREAM_DATA_LENGTH) plus the explicit aliases of fields.def. Functions that cannot be bound are
listed in the table with bound=0 and reported on stderr, never silently dropped.
"""
import os
import re
import sys

inc, spec_path, out = sys.argv[1], sys.argv[2], sys.argv[3]
os.makedirs(out, exist_ok=True)


def norm(s):
    return re.sub(r'[^A-Za-z0-9]', '', s).upper()


TYPE_BITS = {'uint8_t': 8, 'int8_t': 8, 'uint16_t': 16, 'int16_t': 16, 'uint32_t': 32, 'int32_t': 32,
             'uint64_t': 64, 'int64_t': 64, 'int': 32, 'unsigned': 32, 'char': 8, 'bool': 8}


def type_bits(t):
    toks = [x for x in t.replace('*', ' ').split() if x not in ('const', 'static', 'inline', 'extern', 'unsigned', 'signed', 'struct', 'enum')]
    # leading macros (export/attribute decorations) may precede the type: the type is the last token
    t = toks[-1] if toks else 'int'
    return TYPE_BITS.get(t, 32)  # enums and typedef'd enums: int-sized


formats = []
cur = None
for raw in open(spec_path):
    line = raw.split('#', 1)[0].strip()
    if not line:
        continue
    tok = line.split()
    if tok[0] == 'format':
        cur = {'name': tok[1], 'fields': [], 'alias': {}, 'lalias': [], 'noinit': 'noinit' in tok, 'legacy': None}
        for t in tok[2:]:
            if '=' in t:
                k, v = t.split('=', 1)
                cur[k] = v
        formats.append(cur)
    elif tok[0] == 'f':
        cur['fields'].append((tok[1], int(tok[2]), int(tok[3])))
    elif tok[0] == 'alias':
        cur['alias'][norm(tok[1])] = tok[2]
    elif tok[0] == 'lalias':
        cur['lalias'].append((tok[1], tok[2]))

# return type (possibly preceded by macros/attributes), name, parameter list, optional trailing attribute macros, ';'
proto_re = re.compile(r'^\s*([A-Za-z_][\w\s]*?[\w\*])\s*\**\s*\b((?:Avtp|avtp)_\w+)\s*\(([^;{}()]*?)\)\s*(?:[A-Za-z_]\w*\s*(?:\(\([^;{}]*?\)\))?\s*)*;', re.M | re.S)
warnings = []
all_tables = []
# structured entry points that have hand-written drivers (engines/reent/drv_*.c); any OTHER function that cannot be bound to a field
# is reported as not exercised (kind 7), so that a new public function does not silently stay outside every check
HAND_DRIVEN = set('''Avtp_Can_CreateAcfMessage Avtp_Can_GetPayload Avtp_Can_SetPayload Avtp_Can_Finalize Avtp_Can_GetCanPayloadLength
Avtp_CanBrief_SetPayload Avtp_CanBrief_Finalize Avtp_Vss_Pad Avtp_Vss_GetVssPath Avtp_Vss_GetVssData Avtp_Vss_GetVSSDataStringArrayLength
Avtp_Vss_CalcVssPathLength Avtp_Vss_DeserializeStringArray Avtp_Vss_SetVssPath Avtp_Vss_SetVssData Avtp_Vss_SerializeStringArray'''.split())

for f in formats:
    hdr_path = os.path.join(inc, f['header'])
    try:
        text = open(hdr_path).read()
    except OSError:
        warnings.append('%s: header %s missing' % (f['name'], f['header']))
        continue
    code = re.sub(r'/\*.*?\*/', ' ', text, flags=re.S)
    code = re.sub(r'//[^\n]*', ' ', code)
    fn, enum, ctype = f['fn'], f['enum'], f['type']
    protos = []
    for m in proto_re.finditer(code):
        ret, name, args = m.group(1).strip(), m.group(2), ' '.join(m.group(3).split())
        full = m.group(0)
        ret_ptr = bool(re.search(r'\*\s*' + re.escape(name), full))
        protos.append({'ret': ret, 'ret_ptr': ret_ptr, 'name': name, 'args': [a.strip() for a in args.split(',')] if args.strip() else []})
    # functions DEFINED in the header (static inline): public entry points as well
    for m in re.finditer(r'^\s*((?:static\s+|inline\s+|extern\s+)+[A-Za-z_][\w\s]*?[\w\*])\s*\**\s*\b((?:Avtp|avtp)_\w+)\s*\(([^;{}()]*?)\)\s*\{', code, re.M | re.S):
        if m.group(2) not in [p['name'] for p in protos]:
            args = ' '.join(m.group(3).split())
            protos.append({'ret': m.group(1).strip(), 'ret_ptr': bool(re.search(r'\*\s*' + re.escape(m.group(2)), m.group(0))), 'name': m.group(2),
                           'args': [a.strip() for a in args.split(',')] if args.strip() else [], 'inline_def': True})
    byname = {p['name']: p for p in protos}
    # function-like macros with an accessor name are public accessors too (compatibility spellings and the like)
    for m in re.finditer(r'^[ \t]*#[ \t]*define[ \t]+((?:Avtp|avtp)_\w+)\(([^)]*)\)', code, re.M):
        if m.group(1) not in byname:
            mp = {'ret': 'uint64_t', 'ret_ptr': False, 'name': m.group(1), 'macro': True,
                  'args': [a.strip() for a in m.group(2).split(',')] if m.group(2).strip() else []}
            protos.append(mp)
            byname[mp['name']] = mp
    fieldnames = {n: (b, w) for n, b, w in f['fields']}
    normfield = {norm(n): n for n in fieldnames}
    getters, setters = {}, {}
    funcs = []
    c = []
    c.append('/* generated by tools/gen_bindings.py from %s - do not edit */' % f['header'])
    # (bind.h first: the layout of the binding tables must not depend on anything a repository header leaves behind)
    c.append('#include <stdint.h>\n#include <stddef.h>\n#include "bind.h"\n#include "%s"\n' % f['header'])

    def argtype(a):
        a = re.sub(r'\b\w+$', '', a.replace('*', ' * ')).strip() if not a.strip().endswith('*') else a
        return a

    has_init = has_getf = has_setf = False
    for p in protos:
        name = p['name']
        kind, bound = 0, 0
        if not name.startswith(fn + '_'):
            if f.get('legacy') and name.startswith(f['legacy']):
                kind = 6
            funcs.append((name, kind, 1 if kind == 6 else 0))
            continue
        suffix = name[len(fn) + 1:]
        if suffix == 'Init' and len(p['args']) == 1 and not p.get('macro'):
            kind, bound, has_init = 1, 1, True
        elif suffix == 'GetField' and len(p['args']) == 2 and not p.get('macro'):
            kind, bound, has_getf = 2, 1, True
        elif suffix == 'SetField' and len(p['args']) == 3 and not p.get('macro'):
            kind, bound, has_setf = 3, 1, True
        elif p.get('macro') and suffix in ('Init', 'GetField', 'SetField'):
            kind = 0
        elif suffix[:3].lower() == 'get' and len(p['args']) == 1 and not p['ret_ptr'] and p['ret'] != 'void':
            key = norm(suffix[3:])
            fld = f['alias'].get(key) or normfield.get(key)
            if fld:
                kind, bound = 4, 1
                getters.setdefault(fld, []).append(p)
            else:
                kind = 0
        elif suffix[:3].lower() == 'set' and len(p['args']) == 2 and (p['ret'] == 'void' or p.get('macro')) and '*' not in p['args'][1]:
            key = norm(suffix[3:])
            fld = f['alias'].get(key) or normfield.get(key)
            if fld:
                kind, bound = 5, 1
                setters.setdefault(fld, []).append(p)
            else:
                kind = 0
        if not bound and name not in HAND_DRIVEN:
            kind = 7
            warnings.append('%s: %s is a public function that no generated call and no driver exercises' % (f['name'], name))
        elif not bound:
            warnings.append('%s: %s is not a field accessor (left to hand-written drivers)' % (f['name'], name))
        funcs.append((name, kind, bound))

    T = ctype
    if has_init:
        c.append('static void b_init(void *p) { %s_Init((%s *)p); }' % (fn, T))
    if has_getf:
        ft = byname[fn + '_GetField']['args'][1].rsplit(' ', 1)[0]
        c.append('static uint64_t b_getfield(void *p, int f) { return %s_GetField((%s *)p, (%s)f); }' % (fn, T, ft))
    if has_setf:
        ft = byname[fn + '_SetField']['args'][1].rsplit(' ', 1)[0]
        c.append('static void b_setfield(void *p, int f, uint64_t v) { %s_SetField((%s *)p, (%s)f, v); }' % (fn, T, ft))
    leg = f.get('legacy')
    leg_bits = 64
    if leg:
        g, s, i = byname.get(leg + '_get'), byname.get(leg + '_set'), byname.get(leg + '_init')
        if g:
            vt = g['args'][2].replace('*', ' ').split()
            vt = [x for x in vt if x != 'const'][0]
            leg_bits = type_bits(vt)
            ft = g['args'][1].rsplit(' ', 1)[0]
            pt = g['args'][0].rsplit('*', 1)[0].strip() + ' *'
            c.append('static int b_lget(void *p, int f, uint64_t *val) { %s tmp = 0; int r = %s_get((%s)p, (%s)f, &tmp); *val = (uint64_t)tmp; return r; }'
                     % (vt, leg, pt, ft))
            c.append('static int b_lget_raw(void *p, int f, void *val) { return %s_get((%s)p, (%s)f, (%s *)val); }' % (leg, pt, ft, vt))
            f['_lraw'] = True
        if s:
            vt = s['args'][2].rsplit(' ', 1)[0]
            ft = s['args'][1].rsplit(' ', 1)[0]
            pt = s['args'][0].rsplit('*', 1)[0].strip() + ' *'
            c.append('static int b_lset(void *p, int f, uint64_t val) { return %s_set((%s)p, (%s)f, (%s)val); }' % (leg, pt, ft, vt))
        if i:
            if len(i['args']) == 1:
                c.append('static int b_linit(void *p) { return %s_init(p); }' % leg)
            else:
                # avtp_cvf_pdu_init(pdu, format_subtype): initialise and store the format subtype
                c.append('static int b_linit2(void *p, unsigned sub) { return %s_init(p, (uint8_t)sub); }' % leg)
                f['_linit2'] = True
                i = None
        f['_leg'] = (g, s, i)
    rows = []
    for (n, bit, width) in f['fields']:
        enum_name = '%s_%s' % (enum, n)
        has_enum = re.search(r'\b' + re.escape(enum_name) + r'\b', code) is not None
        if not has_enum:
            warnings.append('%s: enumerator %s not found in header' % (f['name'], enum_name))
        gl, sl = getters.get(n, []), setters.get(n, [])
        la = [l for (l, fld) in f['lalias'] if fld == n]
        lid, lname = '-1', 'NULL'
        if la and re.search(r'\b' + re.escape(la[0]) + r'\b', code):
            lid, lname = '(int)(%s)' % la[0], '"%s"' % la[0]
        elif la:
            warnings.append('%s: legacy alias %s not found in header' % (f['name'], la[0]))
        # one row per field; further rows ("NAME~2", ...) when a field has more than one getter or setter
        for k in range(max(len(gl), len(sl), 1)):
            g = gl[k] if k < len(gl) else None
            s = sl[k] if k < len(sl) else None
            rn = n if k == 0 else '%s~%d' % (n, k + 1)
            tag = n if k == 0 else '%s_%d' % (n, k + 1)
            wt = 'uint%d_t' % (8 if width <= 8 else 16 if width <= 16 else 32 if width <= 32 else 64)
            gname = sname = 'NULL'
            gbits = sbits = 0
            if g:
                gname = 'g_' + tag
                gbits = type_bits(wt if g.get('macro') else g['ret'])
                # (the PDU argument is an expression with a side effect, as in `get(next(&cursor))`: a function evaluates it once, a
                #  function-like macro that mentions its parameter twice does not - bind_multi_eval reports that to the engines)
                c.append('static uint64_t %s(void *p) { %s *c_ = (%s *)p; uint64_t r_ = (uint64_t)%s(c_++); if (c_ != (%s *)p + 1) bind_multi_eval = 1; return r_; }'
                         % (gname, T, T, g['name'], T))
            st = None
            if s:
                sname = 's_' + tag
                st = wt if s.get('macro') else s['args'][1].rsplit(' ', 1)[0]
                sbits = type_bits(st)
                c.append('static void %s(void *p, uint64_t v) { %s *c_ = (%s *)p; uint64_t v_ = v; %s(c_++, (%s)(v_++)); if (c_ != (%s *)p + 1 || v_ != v + 1) bind_multi_eval = 1; }'
                         % (sname, T, T, s['name'], st, T))
            fname = 'NULL'
            gg = g or (gl[0] if gl else None)
            if gg and s:
                # fused caller: read, write, read again (and read, initialise, read) with direct calls in ONE function, so that
                # anything the headers tell the compiler about these functions (attributes, inline definitions) is exercised
                fname = 'f_' + tag
                c.append('static uint64_t %s(void *p, uint64_t v, uint64_t *before, int with_init) {' % fname)
                c.append('    %s *q = (%s *)p;' % (T, T))
                c.append('    *before = (uint64_t)%s(q);' % gg['name'])
                if has_init:
                    c.append('    if (with_init) { %s_Init(q); return (uint64_t)%s(q); }' % (fn, gg['name']))
                c.append('    %s(q, (%s)v);' % (s['name'], st))
                c.append('    return (uint64_t)%s(q);' % gg['name'])
                c.append('}')
            cs, cv, ncs = 'NULL', 'NULL', 0
            if s and width:
                # constant-argument callers: literals are what application code passes, and what `__builtin_constant_p` front ends key on
                full = (1 << width) - 1
                consts = sorted(set([0, 1, full, 2 & full, full >> 1, (full >> 1) + 1, 0x5555555555555555 & full]))
                for ci, cvv in enumerate(consts):
                    c.append('static void c_%s_%d(void *p) { %s((%s *)p, %dULL); }' % (tag, ci, s['name'], T, cvv))
                c.append('static void (*const cs_%s[])(void *) = {%s};' % (tag, ', '.join('c_%s_%d' % (tag, ci) for ci in range(len(consts)))))
                c.append('static const uint64_t cv_%s[] = {%s};' % (tag, ', '.join('%dULL' % x for x in consts)))
                cs, cv, ncs = 'cs_' + tag, 'cv_' + tag, len(consts)
            rows.append('  {"%s", %s, %d, %d, %s, %d, %s, %s, %d, %s, %s, %s, %s, %s, %s, %d},' % (
                rn, '(int)' + enum_name if has_enum else '-1', bit, width, gname, gbits,
                '"%s"' % g['name'] if g else 'NULL', sname, sbits, '"%s"' % s['name'] if s else 'NULL',
                lid if k == 0 else '-1', lname if k == 0 else 'NULL', fname, cs, cv, ncs))
    c.append('static const BindField b_fields[] = {')
    c.extend(rows)
    c.append('};')
    c.append('static const BindFunc b_funcs[] = {')
    for (n, k, b) in funcs:
        c.append('  {"%s", %d, %d},' % (n, k, b))
    c.append('  {NULL, 0, 0}\n};')
    init_hex = f['init']
    c.append('static const uint8_t b_init_bytes[] = {%s};' % ', '.join('0x' + init_hex[i:i + 2] for i in range(0, len(init_hex), 2)))
    m = re.search(r'#define\s+(AVTP_\w*HEADER_LEN)\b', code)
    hl = m.group(1) if m else '0'
    fmax = '%s_MAX' % enum
    if not re.search(r'\b' + re.escape(fmax) + r'\b', code):
        fmax = '-1'
    g, s, i = f.get('_leg', (None, None, None))
    c.append('const BindFormat bind_%s = {"%s", "%s", %s, b_init_bytes, (unsigned)sizeof(%s), (unsigned)(%s), (int)%s, %s, %s, %s, %s, %s, %s, %d, b_fields, %d, b_funcs, %d, %s, %s};' % (
        f['name'], f['name'], f['header'], f['bytes'], T, hl, fmax,
        'b_init' if has_init else 'NULL', 'b_getfield' if has_getf else 'NULL', 'b_setfield' if has_setf else 'NULL',
        'b_lget' if g else 'NULL', 'b_lset' if s else 'NULL', 'b_linit' if i else 'NULL', leg_bits, len(rows), len(funcs),
        'b_linit2' if f.get('_linit2') else 'NULL', 'b_lget_raw' if f.get('_lraw') else 'NULL'))
    path = os.path.join(out, 'bind_%s.c' % f['name'])
    new = '\n'.join(c) + '\n'
    old = open(path).read() if os.path.exists(path) else None
    if old != new:
        open(path, 'w').write(new)
    all_tables.append(f['name'])

# ---- new API: public functions that did not exist when the drivers were written (not in bindings/baseline_api.txt).
# Those that take no pointer at all (mode switches, option setters, queries, name look-ups) can be called without knowing any precondition:
# they get a thunk each and are exercised by the re-entrancy engine. The others are only reported.
import glob as _glob
base_path = os.path.join(os.path.dirname(os.path.abspath(__file__)), '..', 'bindings', 'baseline_api.txt')
baseline = set(l.strip() for l in open(base_path) if l.strip() and not l.startswith('#')) if os.path.exists(base_path) else None
extra_rows, extra_code, extra_hdrs, new_uncallable, extrap_rows = [], [], [], [], []
INT_TYPES = set(TYPE_BITS) | {'size_t', 'long', 'short'}
if baseline is not None:
    for hp in sorted(_glob.glob(os.path.join(inc, '**', '*.h'), recursive=True)):
        rel = os.path.relpath(hp, inc)
        code = re.sub(r'/\*.*?\*/', ' ', open(hp).read(), flags=re.S)
        code = re.sub(r'//[^\n]*', ' ', code)
        for m in re.finditer(r'^\s*([A-Za-z_][\w\s]*?[\w\*])\s*\**\s*\b((?:Avtp|avtp)_\w+)\s*\(([^;{}()]*?)\)\s*(?:[A-Za-z_]\w*\s*(?:\(\([^;{}]*?\)\))?\s*)*[;{]', code, re.M | re.S):
            ret, name, args = m.group(1).strip(), m.group(2), ' '.join(m.group(3).split())
            if name in baseline or any(name == r[0] for r in extra_rows) or any(name == r[0] for r in extrap_rows) or name in new_uncallable:
                continue
            params = [a.strip() for a in args.split(',')] if args.strip() and args.strip() != 'void' else []
            ptr = any('*' in a or '[' in a for a in params)
            retptr = '*' in ret or bool(re.search(r'\*\s*' + re.escape(name), m.group(0)))
            scalar = all((a.replace('const', ' ').split() or ['int'])[0] in INT_TYPES or a.split()[0].endswith('_t') for a in params)
            if not ptr and scalar and len(params) <= 4 and 'struct' not in args:
                k = len(extra_rows)
                call = '%s(%s)' % (name, ', '.join('(%s)%s' % (a.rsplit(' ', 1)[0] if ' ' in a else a, 'abcd'[i]) for i, a in enumerate(params)))
                if retptr and 'char' in ret:  # a returned string: what the caller reads through it is the result
                    body = ('const char *r_ = (const char *)%s; uint64_t h_ = 1469598103934665603ULL; int i_; if (!r_) return 0; '
                            'for (i_ = 0; i_ < 256 && r_[i_]; i_++) h_ = (h_ ^ (unsigned char)r_[i_]) * 1099511628211ULL; return h_;' % call)
                elif retptr:     # any other returned pointer: only whether there is one (its value may legitimately differ from run to run)
                    body = 'return (uint64_t)(%s != NULL);' % call
                else:
                    body = ('%s; return 0;' % call) if ret.split()[-1] == 'void' else 'return (uint64_t)%s;' % call
                extra_code.append('static uint64_t e_%d(uint64_t a, uint64_t b, uint64_t c, uint64_t d) { (void)a; (void)b; (void)c; (void)d; %s }' % (k, body))
                extra_rows.append((name, 'e_%d' % k, len(params)))
                if rel not in extra_hdrs:
                    extra_hdrs.append(rel)
            else:
                # one pointer parameter, the first, of a PDU type of a known format; the rest integers
                pdu_re = r'^(const\s+)?Avtp_(\w+)_t\s*(const\s*)?\*\s*(const\s+)?\w*$'
                m0 = re.match(pdu_re, params[0]) if params else None
                m1 = re.match(pdu_re, params[1]) if len(params) > 1 else None
                if m1 and m1.group(2) not in [f['name'] for f in formats]:
                    m1 = None
                rest = params[2:] if m1 else params[1:]
                rest_ok = all('*' not in a and '[' not in a and ((a.replace('const', ' ').split() or ['int'])[0] in INT_TYPES or a.split()[0].endswith('_t')) for a in rest)
                if m0 and m0.group(2) in [f['name'] for f in formats] and rest_ok and len(rest) <= (2 if m1 else 3) and 'struct' not in args:
                    k = len(extrap_rows)
                    ptrs = ['(%sAvtp_%s_t *)p' % ('const ' if m0.group(1) else '', m0.group(2))]
                    ints = 'bcd'
                    if m1:
                        ptrs.append('(%sAvtp_%s_t *)(uintptr_t)b' % ('const ' if m1.group(1) else '', m1.group(2)))
                        ints = 'cd'
                    call = '%s(%s)' % (name, ', '.join(ptrs + ['(%s)%s' % (a.rsplit(' ', 1)[0] if ' ' in a else a, ints[i]) for i, a in enumerate(rest)]))
                    if retptr and 'char' in ret:
                        body = ('const char *r_ = (const char *)%s; uint64_t h_ = 1469598103934665603ULL; int i_; if (!r_) return 0; '
                                'for (i_ = 0; i_ < 256 && r_[i_]; i_++) h_ = (h_ ^ (unsigned char)r_[i_]) * 1099511628211ULL; return h_;' % call)
                    elif retptr:
                        body = 'return (uint64_t)(%s != NULL);' % call
                    else:
                        body = ('%s; return 0;' % call) if ret.split()[-1] == 'void' else 'return (uint64_t)%s;' % call
                    extra_code.append('static uint64_t ep_%d(void *p, uint64_t b, uint64_t c, uint64_t d) { (void)b; (void)c; (void)d; %s }' % (k, body))
                    extrap_rows.append((name, 'ep_%d' % k, len(params), m0.group(2), 1 if m0.group(1) else 0, ('"%s"' % m1.group(2)) if m1 else 'NULL', 1 if (m1 and m1.group(1)) else 0))
                    if rel not in extra_hdrs:
                        extra_hdrs.append(rel)
                else:
                    new_uncallable.append(name)
for n in new_uncallable:
    warnings.append('new API: %s takes pointers or structures: no call is generated for it (NOT EXERCISED)' % n)
ec = ['/* generated by tools/gen_bindings.py: pointer-free public functions that are not part of the baseline API */', '#include <stdint.h>', '#include <stddef.h>']
ec += ['#include "bind.h"']
ec += ['#include "%s"' % h for h in extra_hdrs]
ec += extra_code
ec.append('const BindExtra bind_extras[] = {')
ec += ['  {"%s", %s, %d},' % r for r in extra_rows]
ec.append('  {NULL, NULL, 0}\n};')
ec.append('const unsigned bind_nextras = %d;' % len(extra_rows))
ec.append('const BindExtraP bind_extras_p[] = {')
ec += ['  {"%s", %s, %d, "%s", %d, %s, %d},' % r for r in extrap_rows]
ec.append('  {NULL, NULL, 0, NULL, 0, NULL, 0}\n};')
ec.append('const unsigned bind_nextras_p = %d;' % len(extrap_rows))
ec.append('const char *const bind_new_uncallable[] = {%s NULL};' % ''.join('"%s", ' % n for n in new_uncallable))
path = os.path.join(out, 'bind_extra.c')
new = '\n'.join(ec) + '\n'
if not os.path.exists(path) or open(path).read() != new:
    open(path, 'w').write(new)

# every public header, in both orders (for the include-order variants of the drivers, tools/build_drv_variants.sh)
_all = sorted(os.path.relpath(hp, inc) for hp in _glob.glob(os.path.join(inc, '**', '*.h'), recursive=True))
for nm_, lst in (('all_headers_az.h', _all), ('all_headers_za.h', list(reversed(_all)))):
    txt = '/* generated: all public headers */\n' + ''.join('#include "%s"\n' % h for h in lst)
    pth = os.path.join(out, nm_)
    if not os.path.exists(pth) or open(pth).read() != txt:
        open(pth, 'w').write(txt)

c = ['/* generated */', '#include "bind.h"']
for n in all_tables:
    c.append('extern const BindFormat bind_%s;' % n)
c.append('const BindFormat *const bind_formats[] = {%s};' % ', '.join('&bind_%s' % n for n in all_tables))
c.append('const unsigned bind_nformats = %d;' % len(all_tables))
c.append('volatile unsigned bind_multi_eval = 0;')
path = os.path.join(out, 'bind_all.c')
new = '\n'.join(c) + '\n'
if not os.path.exists(path) or open(path).read() != new:
    open(path, 'w').write(new)
open(os.path.join(out, 'formats.list'), 'w').write('\n'.join(all_tables) + '\n')
open(os.path.join(out, 'warnings.txt'), 'w').write('\n'.join(warnings) + '\n')
for w in warnings:
    print('gen_bindings: ' + w, file=sys.stderr)
