#!/bin/bash
# Build a second, -O0 copy of every example program (plus examples/common and acf-can-common) into one
# relocatable object whose global symbols carry the prefix O0_, so that it can be linked next to the -O1 copy.
# The library sources given after the examples directory are compiled the same way and go into the same object, so that the -O0
# programs run on a -O0 library (the repository's default build type has no optimisation at all).
# The prefix is O0_ unless the environment variable COPY_PREFIX names another one (G_ for the copy compiled by gcc).
# usage: build_o0.sh <workdir> <output.o> <cc> "<cflags>" <examples dir> "<library cflags>" <library sources...>
set -e
work=$1; out=$2; cc=$3; cflags=$4; ex=$5; libflags=$6; shift 6 2>/dev/null || shift $#
libsrcs="$@"
pfx=${COPY_PREFIX:-O0_}
mkdir -p "$work"
list="acf-can-talker:acf-can/acf-can-talker.c:acf_can_talker_main
acf-can-listener:acf-can/acf-can-listener.c:acf_can_listener_main
acf-can-common:acf-can/acf-can-common.c:unused_main_1
cvf-talker:cvf/cvf-talker.c:cvf_talker_main
cvf-listener:cvf/cvf-listener.c:cvf_listener_main
aaf-talker:aaf/aaf-talker.c:aaf_talker_main
aaf-listener:aaf/aaf-listener.c:aaf_listener_main
hello-world-talker:hello-world/hello-world-talker.c:hello_world_talker_main
hello-world-listener:hello-world/hello-world-listener.c:hello_world_listener_main
acf-vss-talker:acf-vss/acf-vss-talker.c:acf_vss_talker_main
acf-vss-listener:acf-vss/acf-vss-listener.c:acf_vss_listener_main
crf-talker:crf/crf-talker.c:crf_talker_main
crf-listener:crf/crf-listener.c:crf_listener_main
crf-listener-b:crf/crf-listener.c:crf_listener_b_main
common:common/common.c:unused_main_2"
objs=""
: > "$work/map"
for l in $list; do
  n=${l%%:*}; rest=${l#*:}; src=${rest%%:*}; m=${rest#*:}
  $cc $cflags -Dmain=$m -c "$ex/$src" -o "$work/$n.tmp.o"
  nm -g --defined-only "$work/$n.tmp.o" | awk '$2 ~ /^[TDBRC]$/ && $3 !~ /^__/ {print $3" "p$3}' p=$pfx >> "$work/map"
  objs="$objs $n"
done
k=0
for src in $libsrcs; do
  k=$((k+1)); n=lib$k
  $cc $cflags $libflags -c "$src" -o "$work/$n.tmp.o"
  nm -g --defined-only "$work/$n.tmp.o" | awk '$2 ~ /^[TDBRC]$/ && $3 !~ /^__/ {print $3" "p$3}' p=$pfx >> "$work/map"
  objs="$objs $n"
done
sort -u "$work/map" > "$work/map.u"
robjs=""
for n in $objs; do
  objcopy --redefine-syms="$work/map.u" "$work/$n.tmp.o" "$work/$n.o"
  robjs="$robjs $work/$n.o"
done
ld -r -o "$out" $robjs
