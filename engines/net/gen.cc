// Plan generation: a pure function (property, base seed, run index) -> plan text.
// Swarm style: every run draws its own configuration, workload mix, enabled fault kinds and rates.
#include <linux/can.h>
#include <algorithm>
#include <cstring>
#include "../../spec/wire.h"
#include "plan.h"

using sim::Rng;
using sim::strf;

namespace net {

static const uint64_t kStreamId = 0xAABBCCDDEEFF0001ULL, kCrfStreamId = 0xAABBCCDDEEFF0002ULL;

struct Out {
    std::string s;
    void line(const std::string &l) { s += l; s += '\n'; }
};

// which copy of programs and library a run uses: 0 = clang -O1 -DNDEBUG, 1 = clang -O0 with unsigned plain char, 2 = gcc -O2 -DNDEBUG
// (one draw whatever the outcome, so that plans of other seeds keep the rest of their shape)
static int pick_copy(Rng &r, double p_other) { double x = (double)r.below(1000000) / 1e6; return x < p_other * 0.55 ? 1 : x < p_other ? 2 : 0; }
#include "../../build/src_literals.inc"
// a presentation time whose sub-second part is a constant of the program (or next to one): arithmetic on struct timespec branches there
static uint32_t ts_near_literal(Rng &r, uint64_t now_ns) {
    uint64_t lit = kSrcLiterals[r.below(kNSrcLiterals)] % 1000000000ULL;
    int64_t off = (int64_t)lit * (r.chance(0.7) ? 1 : -1) + (r.chance(0.6) ? 0 : (int64_t)r.range(0, 2) - 1);
    return (uint32_t)((int64_t)((now_ns / 1000000000ULL + r.range(1, 4)) * 1000000000ULL) + off);
}
static uint64_t pick_epoch(Rng &r) {
    if (!r.chance(0.04)) return 1700000000ULL;
    static const uint64_t e[] = {2147483647ULL - 3, 2147483648ULL + 1000, 2208988800ULL, 4102444800ULL, 4294967295ULL - 3, 4294967296ULL + 1000};
    return e[r.below(6)];
}
static std::string sched_str(Rng &r) {
    switch (r.below(6)) {
    case 0: return strf("rand:%.2f", 0.02 + 0.01 * r.below(10));
    case 1: return strf("rand:%.2f", 0.2 + 0.1 * r.below(7));
    case 2: return strf("pct:%d:%d", (int)r.range(1, 5), (int)r.range(50, 5000));
    case 3: return strf("rr:%d", (int)r.range(1, 8));
    case 4: return "rtb";
    default: return strf("rand:%.2f", 0.5);
    }
}

static std::vector<uint8_t> rnd_bytes(Rng &r, size_t n, int style = -1) {
    std::vector<uint8_t> v(n);
    if (style < 0) style = (int)r.below(5);
    for (auto &b : v) {
        switch (style) {
        case 0: b = (uint8_t)r.next(); break;
        case 1: b = (uint8_t)(1 + r.below(255)); break;  // no zero bytes
        case 2: b = 0xff; break;
        case 3: b = (uint8_t)(0x21 + r.below(0x5e)); break;  // printable
        default: b = r.chance(0.3) ? 0 : (uint8_t)r.next(); break;
        }
    }
    return v;
}

// payloads with structure: all zero, zeros at the end, something that looks like an ACF header, a two-byte sync pattern
static std::vector<uint8_t> structured_bytes(Rng &r, size_t n) {
    std::vector<uint8_t> v = rnd_bytes(r, n, 1);
    switch (r.below(4)) {
    case 0: std::fill(v.begin(), v.end(), 0); break;
    case 1: for (size_t i = n - std::min<size_t>(n, 1 + r.below(8)); i < n; i++) v[i] = 0; break;
    case 2: { static const uint8_t hdr[] = {0x02, 0x06, 0x20, 0x00, 0x00, 0x00, 0x00, 0x00}; for (size_t i = 0; i < n && i < 8; i++) v[i] = hdr[i]; break; }
    default: for (size_t i = 0; i < n; i++) v[i] = (i & 1) ? 0x55 : 0xAA; break;
    }
    return v;
}

// ------------------------------------------------------------------ CAN frames
static CanRec gen_can_frame(Rng &r, bool fd) {
    CanRec c;
    c.fd = fd;
    bool eff = r.chance(0.45);
    static const uint32_t sff_ids[] = {0, 1, 0x7ff, 0x7fe, 0x400, 0x123};
    static const uint32_t eff_ids[] = {0, 1, 0x7ff, 0x800, 0x7fe, 0x1fffffff, 0x1ffffffe, 0x10000000, 0x12345678, 0x801};
    uint32_t id;
    if (eff) id = r.chance(0.6) ? eff_ids[r.below(10)] : (uint32_t)r.below(0x20000000);
    else id = r.chance(0.5) ? sff_ids[r.below(6)] : (uint32_t)r.below(0x800);
    c.can_id = id | (eff ? CAN_EFF_FLAG : 0);
    if (fd) {
        static const uint8_t fdlens[] = {0, 1, 2, 3, 4, 5, 6, 7, 8, 12, 16, 20, 24, 32, 48, 64};
        c.len = r.chance(0.75) ? fdlens[r.below(16)] : (uint8_t)r.below(65);
        // (kernels before 6.1 and many senders deliver FD frames without CANFD_FDF in the flags byte: the frame size says what it is)
        c.flags = (r.chance(0.85) ? CANFD_FDF : 0) | (r.coin() ? CANFD_BRS : 0) | (r.chance(0.4) ? CANFD_ESI : 0);
    } else {
        c.len = (uint8_t)(r.chance(0.25) ? 8 : r.below(9));
        if (r.chance(0.2)) c.can_id |= CAN_RTR_FLAG;
        if (c.len == 8 && r.chance(0.2)) c.dlc8 = (uint8_t)r.range(9, 15);  // controller reports the raw DLC of an 8-byte frame
    }
    auto d = r.chance(0.12) ? structured_bytes(r, c.len) : rnd_bytes(r, c.len, r.chance(0.7) ? 1 : -1);
    memcpy(c.data, d.data(), c.len);
    // the bytes of the frame structure that carry nothing (__pad, __res0, __res1): a sender over a virtual CAN interface may leave anything there
    if (r.chance(0.08)) c.junk = (uint16_t)(r.coin() ? (uint16_t[]){0x0001, 0x0002, 0x0003, 0x0004, 0x00ff, 0x0100, 0xffff}[r.below(7)] : r.below(65536));
    return c;
}
static std::string can_line(uint64_t t, const CanRec &c) {
    std::string fl;
    if (c.can_id & CAN_EFF_FLAG) fl += 'E';
    if (c.can_id & CAN_RTR_FLAG) fl += 'R';
    if (fl.empty()) fl = "-";
    std::string l = strf("can t=%llu id=0x%x fl=%s len=%u data=%s", (unsigned long long)t, c.can_id & CAN_EFF_MASK, fl.c_str(), c.len,
                         sim::hexstr(c.data, c.len).c_str());
    if (c.fd) l += strf(" ff=0x%02x", c.flags);
    if (c.dlc8) l += strf(" dlc8=%u", c.dlc8);
    if (c.junk) l += strf(" junk=0x%x", c.junk);
    return l;
}
static uint64_t gap(Rng &r, uint64_t scale, bool very_long = false) {
    if (very_long && r.chance(0.006)) return r.range(900, 3500) * 1000000ULL;  // the bus is silent for seconds
    if (very_long && r.chance(0.0015)) return (r.chance(0.8) ? r.range(61, 400) : r.range(2150, 4400)) * 1000000000ULL;  // ... for minutes, for more than 2^31 us
    if (r.chance(0.03)) return r.range(20, 200) * scale;  // an occasional long pause of the source
    switch (r.below(10)) {
    case 0: case 1: case 2: return 0;
    case 3: case 4: case 5: return r.range(1, scale / 20 + 1);
    default: return r.range(scale / 20, scale);
    }
}

// content-preserving network faults for datagrams k0..k1 of `node`
static void gen_net_faults(Rng &r, Out &o, int node, int k0, int k1, double p_drop, double p_dup, double p_delay, uint64_t maxdelay) {
    for (int k = k0; k < k1; k++) {
        if (r.chance(p_drop)) o.line(strf("mut node=%d dg=%d kind=drop", node, k));
        if (r.chance(p_dup)) o.line(strf("mut node=%d dg=%d kind=dup a=%llu", node, k, (unsigned long long)r.range(0, maxdelay)));
        if (r.chance(p_delay)) o.line(strf("mut node=%d dg=%d kind=delay a=%llu", node, k, (unsigned long long)r.range(1000, maxdelay)));
    }
}

// ------------------------------------------------------------------ C19: tunnel
// the two machines' clocks: usually within a millisecond, sometimes seconds, hours or years apart (nothing synchronises them)
static int64_t big_skew(Rng &r) {
    if (!r.chance(0.2)) return (int64_t)r.range(0, 2000000) - 1000000;
    static const int64_t mag[] = {1100000000LL, 5000000000LL, 3600000000000LL, 86400000000000LL, 400LL * 86400000000000LL};
    int64_t v = mag[r.below(5)] + (int64_t)r.range(0, 999999999);
    return r.coin() ? v : -v;
}
static std::string gen_tunnel(uint64_t seed, uint64_t idx, bool thorough) {
    Rng r(seed);
    Out o;
    unsigned mode = idx % 8;
    bool tscf = mode & 1, udp = mode & 2, fd = mode & 4;
    unsigned stratum = (idx / 8) % 4;
    bool faults = (idx / 32) % 2;
    size_t hdrs = (udp ? 4 : 0) + (tscf ? wire::TSCF_HDR : wire::NTSCF_HDR);
    int maxcount = (int)((1500 - hdrs) / (fd ? 80 : 24));  // what the talker's 1500-byte buffer holds for maximum-size frames
    // frames of one kind (the same message sent over and over): all maximum length, or all of one random length
    int uniform_len = -1;
    if (r.chance(0.2)) uniform_len = r.chance(0.6) ? (fd ? 64 : 8) : (int)r.below(fd ? 65 : 9);
    int count;
    switch (stratum) {
    case 0: count = 1; break;
    case 1: count = (int)r.range(2, 3); break;
    case 2: count = (int)r.range(4, std::min(12, maxcount)); break;
    default: count = r.chance(0.35) ? maxcount - (int)r.below(3) : (int)r.range(1, maxcount); break;
    }
    if (stratum == 3 && uniform_len >= 0) {
        // a bus that only carries short frames: more of them fit into one packet than the maximum-size bound says
        int umax = std::min(255, (int)((1500 - hdrs) / (16 + (size_t)((uniform_len + 3) & ~3))));
        if (umax > maxcount && r.chance(0.6)) count = r.chance(0.4) ? umax - (int)r.below(2) : (int)r.range(maxcount + 1, umax);
    }
    // (a restarted talker may be given the other control format if the frames-per-packet count is valid there too: the TSCF header is the longer one)
    bool flip_ok = count <= (int)((1500 - (udp ? 4 : 0) - wire::TSCF_HDR) / (fd ? 80 : 24));
    int nframes = (int)(r.chance(0.3) ? r.range(1, 6) : r.range(1, thorough ? 300 : 120));
    if (r.chance(0.6)) nframes = std::max(nframes, count * (int)r.range(1, 4));
    if (count <= 2 && r.chance(0.2)) nframes = (int)r.range(258, 300) * count;  // 8-bit sequence counters wrap inside the run
    if (nframes > 600) nframes = 600;
    // a few runs are long: thousands of packets between the same two processes (counters, sequence numbers, accumulated state)
    bool long_run = idx % 397 == 137 || (thorough && idx % 53 == 37);
    if (long_run) { nframes = (int)r.range(4300, thorough ? 9000 : 5200); count = r.chance(0.7) ? 1 : 2; }
    // thorough tier: a handful of runs carry more than 2^16 frames, at a frames-per-packet count that does not divide 2^16
    bool very_long = thorough && idx % 4001 == 2000;
    if (very_long) { long_run = true; nframes = (int)r.range(66000, 72000); count = (int[]){1, 3, 5, 6, 7, 9}[r.below(6)]; }
    uint64_t lat_lo = r.range(1000, 100000), lat_hi = lat_lo + r.range(0, 2000000);
    size_t qcap = faults ? (size_t[]){2, 4, 8, 64, 4096}[r.below(5)] : 4096;
    uint64_t t = 1000000, scale = (uint64_t[]){20000, 200000, 2000000}[r.below(3)];
    if (long_run) scale = 20000;
    std::vector<std::string> frames;
    std::vector<uint64_t> frame_t;
    if (uniform_len >= 0 && count > 8) nframes = std::max(nframes, count * (int)r.range(1, 3));
    bool repeats = r.chance(0.25);  // a source that sends the same frame again and again
    // an FD-capable bus carries classic frames too: a socket with FD frames enabled delivers them as 16-byte reads
    bool mixed_bus = fd && uniform_len < 0 && r.chance(0.3);
    CanRec prev_frame;
    for (int i = 0; i < nframes; i++) {
        CanRec c = gen_can_frame(r, fd && !(mixed_bus && r.chance(0.35)));
        if (repeats && i > 0 && r.chance(0.5)) {
            c = prev_frame;
            if (r.chance(0.4)) {  // same identifier and length again, other flags and/or content
                if (c.fd) c.flags = (c.flags & CANFD_FDF) | (r.coin() ? CANFD_BRS : 0) | (r.coin() ? CANFD_ESI : 0);
                else if (!fd && r.chance(0.3)) c.can_id ^= CAN_RTR_FLAG;
                if (r.coin()) { auto d = rnd_bytes(r, c.len, 1); memcpy(c.data, d.data(), c.len); }
            }
        } else if (uniform_len >= 0) {
            c.len = (uint8_t)uniform_len;
            auto d = rnd_bytes(r, c.len, 1);
            memcpy(c.data, d.data(), c.len);
        }
        prev_frame = c;
        frames.push_back(can_line(t, c));
        frame_t.push_back(t);
        t += gap(r, scale, !long_run);
    }
    uint64_t maxdelay = 5000000;
    uint64_t tend = t + 60000000ULL + 2 * maxdelay + 65000000ULL;
    o.line(strf("plan v1 engine=net prop=C19 seed=0x%llx idx=%llu", (unsigned long long)seed, (unsigned long long)idx));
    double read0 = (faults && r.chance(0.3)) ? 0.02 + 0.02 * r.below(10) : 0;
    // coarse clock sources are legal: CLOCK_REALTIME may tick in us or ms steps (several frames then share one timestamp)
    uint64_t clkgran = r.chance(0.25) ? (uint64_t[]){1000, 1000000, 4000000, 10000000}[r.below(4)] : 1;
    int stackfill = r.chance(0.6) ? 0xA5 : (int[]){0x00, 0x00, 0xFF, 0x01}[r.below(4)];
    int port = r.chance(0.3) ? (int)(int[]){1025, 17221, 20000, 40000, 65535}[r.below(5)] : 0;
    int addr = r.chance(0.3) ? (int)r.range(1, 3) : 0;  // destination MAC / IP address variants (multicast bit, bytes >= 0x80, octets 0 and 255)
    o.line(strf("cfg scen=tunnel epoch=%llu env=%d addr=%d port=%d longnames=%d argorder=%d stackfill=%d udp=%d fd=%d tscf=%d count=%d o0=%d ethpad=%d read0=%.2f clkgran=%llu sched=%s lat=%llu:%llu cost=%llu:%llu qcap=%zu tend=%llu rseed=0x%llx skew0=%lld skew1=%lld",
                (unsigned long long)(r.chance(0.01) ? 0 : pick_epoch(r)), (int)r.chance(0.25), addr, port, (int)r.chance(0.3), (int)r.coin(), stackfill, udp, fd, tscf, count, pick_copy(r, 0.3), (int)(!udp && r.chance(0.4)), read0, (unsigned long long)clkgran, sched_str(r).c_str(), (unsigned long long)lat_lo, (unsigned long long)lat_hi,
                (unsigned long long)r.range(50, 500), (unsigned long long)r.range(500, 20000), qcap, (unsigned long long)tend,
                (unsigned long long)r.next(), (long long)big_skew(r), (long long)big_skew(r)));
    // the Ethernet link flaps once (raw mode): the sockets report ENETDOWN, nothing is lost
    if (!udp && frame_t.size() > 2 && r.chance(0.08)) o.line(strf("linkflap t=%llu", (unsigned long long)frame_t[r.below(frame_t.size())]));
    for (auto &f : frames) o.line(f);
    // crash and restart of the talker process at an arbitrary instant (twice at most); long runs restart late
    if (r.chance(long_run ? 0.6 : 0.12)) {
        int k = r.chance(0.25) ? 2 : 1;
        for (int i = 0; i < k; i++) {
            size_t fi = long_run ? (size_t)r.range(4200, nframes - 1) : (size_t)r.below(frame_t.size());
            o.line(strf("restart t=%llu who=%s", (unsigned long long)(frame_t[std::min(fi, frame_t.size() - 1)] + r.range(0, scale)), (i == 0 ? r.chance(0.7) : false) ? "talker" : "listener") + ((r.chance(0.4) && flip_ok) ? " flip=1" : ""));
        }
    }
    // the controller reports bus problems as error message frames (CAN_ERR_FLAG): delivered only to sockets that set an error filter,
    // and never part of the traffic to be tunnelled
    if (r.chance(0.08)) {
        int k = (int)r.range(1, 4);
        for (int i = 0; i < k; i++) {
            CanRec ec;
            ec.can_id = CAN_ERR_FLAG | (uint32_t[]){0x004, 0x040, 0x100, 0x002, 0x020}[r.below(5)];
            ec.len = 8;
            auto d = rnd_bytes(r, 8, 0);
            memcpy(ec.data, d.data(), 8);
            o.line(strf("can t=%llu id=0x%x fl=X len=8 data=%s", (unsigned long long)r.range(1000000, t), ec.can_id & CAN_ERR_MASK, sim::hexstr(ec.data, 8).c_str()));
        }
    }
    // the clock of one of the two machines is stepped (NTP/PTP correction, settimeofday): forwards or backwards, once or twice
    if (r.chance(0.1)) {
        int k = (int)r.range(1, 2);
        for (int i = 0; i < k; i++) {
            int64_t d = (int64_t)(uint64_t[]){1000000, 20000000, 1000000000, 10000000000ULL}[r.below(4)] + (int64_t)r.range(0, 999999);
            o.line(strf("clkjump t=%llu node=%d delta=%lld", (unsigned long long)r.range(1000000, t), (int)r.below(2), (long long)(r.coin() ? d : -d)));
        }
    }
    if (faults) {
        int ndg = nframes / count + 1;
        double pd = r.chance(0.5) ? 0.02 * r.below(10) : 0, pu = r.chance(0.5) ? 0.02 * r.below(10) : 0, pl = r.chance(0.5) ? 0.03 * r.below(10) : 0;
        gen_net_faults(r, o, 0, 0, ndg, pd, pu, pl, maxdelay);
        int nst = (int)r.below(4);
        for (int i = 0; i < nst; i++)
            o.line(strf("stall t=%llu node=%d dur=%llu", (unsigned long long)r.range(0, t), (int)r.below(2), (unsigned long long)r.range(10000, 5000000)));
    }
    return o.s;
}

// ------------------------------------------------------------------ C18: hostile datagrams
struct Field { size_t off; unsigned w; bool is_len; uint64_t truth; };
struct Built { wire::Bytes d; std::vector<Field> fields; };

static void add_field(Built &b, size_t off, unsigned w, bool is_len = false) {
    b.fields.push_back(Field{off, w, is_len, b.d.get(off, w)});
}

static void cf_fields(Built &b, size_t o, bool tscf) {
    size_t B = o * 8;
    add_field(b, B + 0, 8);  // subtype
    add_field(b, B + 8, 1); add_field(b, B + 9, 3);
    if (tscf) { add_field(b, B + 160, 16, true); add_field(b, B + 96, 32); add_field(b, B + 16, 8); }
    else { add_field(b, B + 13, 11, true); add_field(b, B + 24, 8); }
    add_field(b, B + 32, 64);  // stream id (same place in both control formats)
}

static wire::Bytes cf_wrap(Rng &r, bool udp, bool tscf, const wire::Bytes &acf, uint64_t now_ns, size_t *cf_off) {
    wire::Bytes d;
    if (udp) { d.resize(4); d.put(0, 32, r.next() & 0xffffffff); }
    *cf_off = d.size();
    if (tscf) d.append(wire::tscf_header((uint16_t)acf.size(), (uint8_t)r.next(), kStreamId, (uint32_t)now_ns));
    else d.append(wire::ntscf_header((uint16_t)(acf.size() & 0x7ff), (uint8_t)r.next(), kStreamId));
    d.append(acf);
    return d;
}

static Built build_can(Rng &r, bool udp, bool tscf, bool fd, uint64_t now_ns) {
    Built b;
    wire::Bytes acf;
    int k = (int)(r.chance(0.5) ? 1 : r.range(1, 6));
    std::vector<size_t> msg_off;
    // "full buffer" datagrams: a chain of valid messages that ends exactly at, just before or just beyond the
    // 1500 bytes the listener can receive (recv() truncates what is longer)
    size_t fill_target = 0;
    if (r.chance(0.3)) {
        static const size_t totals[] = {1500, 1500, 1496, 1492, 1488, 1484, 1476, 1504, 1508, 1512, 1516, 1532, 1564};
        size_t hdrs = (udp ? 4 : 0) + (tscf ? wire::TSCF_HDR : wire::NTSCF_HDR);
        fill_target = totals[r.below(13)] - hdrs;
        k = 200;
    }
    for (int i = 0; i < k; i++) {
        CanRec c = gen_can_frame(r, r.chance(0.8) ? fd : !fd);
        if (fill_target) {
            size_t left = fill_target - acf.size();
            if (left < 16) break;
            if (left <= 16 + 64 + 3 && r.chance(0.8)) {  // last message: make it end exactly at the target
                size_t pl = left - 16;
                if (pl > 64) pl = 64;
                if (r.coin() && pl >= 4) pl -= r.below(4);  // ... possibly with padding
                c.fd = pl > 8 || c.fd;
                c.len = (uint8_t)pl;
                auto d = rnd_bytes(r, pl, 1);
                memcpy(c.data, d.data(), pl);
            }
        }
        wire::CanMsg m{c.can_id & CAN_EFF_MASK, (c.can_id & CAN_EFF_FLAG) != 0, (c.can_id & CAN_RTR_FLAG) != 0, (c.flags & CANFD_BRS) != 0,
                       c.fd, (c.flags & CANFD_ESI) != 0, std::vector<uint8_t>(c.data, c.data + c.len), now_ns, (uint8_t)r.below(32)};
        msg_off.push_back(acf.size());
        acf.append(wire::acf_can(m));
    }
    size_t cfo;
    b.d = cf_wrap(r, udp, tscf, acf, now_ns, &cfo);
    cf_fields(b, cfo, tscf);
    size_t hdr = cfo + (tscf ? wire::TSCF_HDR : wire::NTSCF_HDR);
    for (size_t mo : msg_off) {
        size_t B = (hdr + mo) * 8;
        add_field(b, B + 0, 7); add_field(b, B + 7, 9, true); add_field(b, B + 16, 2, true);
        add_field(b, B + 19, 1); add_field(b, B + 20, 1); add_field(b, B + 21, 3); add_field(b, B + 99, 29);
        // length and pad fields get extra weight
        add_field(b, B + 7, 9, true); add_field(b, B + 7, 9, true); add_field(b, B + 16, 2, true);
    }
    return b;
}

static Built build_hello(Rng &r, bool udp, bool tscf, uint64_t now_ns) {
    Built b;
    size_t n = r.chance(0.5) ? r.range(0, 40) : r.range(0, 1480);
    if (r.chance(0.04)) n = r.range(1480, 8900);  // jumbo frame
    if (r.chance(0.15)) n = (size_t[]){84, 88, 91, 92, 93, 96, 1500 - 24 - 8, 1500 - 12 - 8, 1500 - 28 - 8, 1500 - 16 - 8}[r.below(10)];  // around MAX_MSG_SIZE and the full buffer
    std::vector<uint8_t> pl = rnd_bytes(r, n, r.chance(0.6) ? (r.coin() ? 1 : 3) : -1);
    if (r.chance(0.5) && !pl.empty()) pl.back() = 0;  // half of them NUL-terminated
    wire::Bytes acf = wire::acf_gpc(r.next() & 0xffffffffffffULL, pl);
    size_t cfo;
    b.d = cf_wrap(r, udp, tscf, acf, now_ns, &cfo);
    cf_fields(b, cfo, tscf);
    size_t B = (cfo + (tscf ? wire::TSCF_HDR : wire::NTSCF_HDR)) * 8;
    add_field(b, B + 0, 7); add_field(b, B + 7, 9, true); add_field(b, B + 7, 9, true); add_field(b, B + 16, 48);
    return b;
}

static void be16(std::vector<uint8_t> &v, uint16_t x) { v.push_back(x >> 8); v.push_back(x & 0xff); }

static Built build_vss(Rng &r, bool udp, bool tscf, uint64_t now_ns) {
    Built b;
    unsigned am = r.chance(0.85) ? (unsigned)r.below(2) : (unsigned)r.range(2, 3);
    static const unsigned dts[] = {0, 1, 2, 3, 4, 5, 6, 7, 8, 9, 0xA, 0xB, 0x80, 0x81, 0x82, 0x83, 0x84, 0x85, 0x86, 0x87, 0x88, 0x89, 0x8A, 0x8B};
    unsigned dt = r.chance(0.9) ? dts[r.below(24)] : (unsigned)r.below(256);
    if (r.chance(0.3)) dt = 9;  // the one the listener prints
    std::vector<uint8_t> path, data;
    bool fill = r.chance(0.2);  // message that ends exactly at (or within a few bytes of) the end of a 1500-byte datagram
    if (am == 1) { auto x = rnd_bytes(r, 4); path = x; }
    else {
        size_t pl = r.chance(0.6) ? r.range(0, 40) : r.range(0, 1400);
        if (!fill && r.chance(0.04)) pl = r.range(1400, 8900);  // jumbo frame: a datagram larger than the 1500 bytes the listeners receive into
        if (fill) {
            size_t hdrs = (udp ? 4 : 0) + (tscf ? wire::TSCF_HDR : wire::NTSCF_HDR) + wire::ACF_VSS_HDR + 2;
            size_t val = (dt == 0 || dt == 1 || dt == 8) ? 1 : (dt == 2 || dt == 3) ? 2 : (dt == 4 || dt == 5 || dt == 9) ? 4 : (dt == 6 || dt == 7 || dt == 0xA) ? 8 : 2;
            size_t target = (size_t[]){1500, 1500, 1499, 1498, 1497, 1496, 1502, 1504}[r.below(8)];
            pl = target > hdrs + val ? target - hdrs - val + (r.chance(0.3) ? r.below(5) : 0) : pl;
        }
        be16(path, (uint16_t)pl);
        auto x = rnd_bytes(r, pl, 3);
        path.insert(path.end(), x.begin(), x.end());
    }
    size_t elem = 1;
    bool var = false;
    switch (dt) {
    case 0: case 1: case 8: data = rnd_bytes(r, 1); break;
    case 2: case 3: data = rnd_bytes(r, 2); break;
    case 4: case 5: case 9: data = rnd_bytes(r, 4); break;
    case 6: case 7: case 0xA: data = rnd_bytes(r, 8); break;
    case 0x82: case 0x83: elem = 2; var = true; break;
    case 0x84: case 0x85: case 0x89: elem = 4; var = true; break;
    case 0x86: case 0x87: case 0x8A: elem = 8; var = true; break;
    default: var = dt == 0xB || dt >= 0x80; break;
    }
    size_t lenpos = 0;
    if (var) {
        size_t n = r.chance(0.6) ? r.range(0, 12) : r.range(0, 150);
        size_t bytes = n * elem;
        if (path.size() + bytes > 1400) bytes = 0;
        lenpos = wire::ACF_VSS_HDR + path.size();
        be16(data, (uint16_t)bytes);
        auto x = rnd_bytes(r, bytes);
        data.insert(data.end(), x.begin(), x.end());
    }
    wire::Bytes acf = wire::acf_vss(am, (unsigned)r.below(8), dt, now_ns, path, data);
    size_t cfo;
    b.d = cf_wrap(r, udp, tscf, acf, now_ns, &cfo);
    cf_fields(b, cfo, tscf);
    size_t H = cfo + (tscf ? wire::TSCF_HDR : wire::NTSCF_HDR), B = H * 8;
    add_field(b, B + 0, 7); add_field(b, B + 7, 9, true); add_field(b, B + 16, 2, true); add_field(b, B + 19, 2); add_field(b, B + 24, 8);
    add_field(b, B + 96, 16, true); add_field(b, B + 96, 16, true);  // interop path length / static id high half
    if (var) { add_field(b, (H + lenpos) * 8, 16, true); add_field(b, (H + lenpos) * 8, 16, true); }
    return b;
}

static Built build_cvf(Rng &r, uint64_t now_ns) {
    Built b;
    size_t n = r.chance(0.5) ? r.range(1, 64) : r.range(1, 1400);
    if (r.chance(0.2)) n = (size_t[]){1396, 1399, 1400, 1401, 1404, 1408, 1420, 1472}[r.below(8)];  // around DATA_LEN and the receive size
    uint32_t ts = (uint32_t)(now_ns + (r.chance(0.7) ? r.range(0, 50000000) : r.next()));
    if (r.chance(0.12)) ts = (uint32_t)((now_ns / 1000000000ULL + r.range(1, 4)) * 1000000000ULL - (r.chance(0.7) ? 0 : r.range(1, 2)));  // presentation on a full second
    else if (r.chance(0.08)) ts = ts_near_literal(r, now_ns);
    b.d = wire::cvf_h264((uint8_t)r.next(), kStreamId, ts, rnd_bytes(r, n));
    add_field(b, 0, 8); add_field(b, 8, 1); add_field(b, 9, 3); add_field(b, 15, 1); add_field(b, 16, 8); add_field(b, 32, 64);
    add_field(b, 96, 32); add_field(b, 128, 8); add_field(b, 136, 8); add_field(b, 31, 1); add_field(b, 12, 1); add_field(b, 178, 1); add_field(b, 179, 1);
    add_field(b, 160, 16, true); add_field(b, 160, 16, true); add_field(b, 160, 16, true); add_field(b, 160, 16, true);
    return b;
}

static Built build_aaf(Rng &r, uint64_t now_ns, size_t payload) {
    Built b;
    uint32_t ts = (uint32_t)(now_ns + (r.chance(0.7) ? r.range(0, 50000000) : r.next()));
    if (r.chance(0.12)) ts = (uint32_t)((now_ns / 1000000000ULL + r.range(1, 4)) * 1000000000ULL - (r.chance(0.7) ? 0 : r.range(1, 2)));  // presentation on a full second
    else if (r.chance(0.08)) ts = ts_near_literal(r, now_ns);
    b.d = wire::aaf_pcm((uint8_t)r.next(), kStreamId, ts, 4, 5, 2, 16, rnd_bytes(r, payload));
    add_field(b, 0, 8); add_field(b, 8, 1); add_field(b, 9, 3); add_field(b, 15, 1); add_field(b, 16, 8); add_field(b, 32, 64); add_field(b, 96, 32);
    add_field(b, 128, 8); add_field(b, 136, 4); add_field(b, 142, 10); add_field(b, 152, 8); add_field(b, 160, 16, true); add_field(b, 179, 1);
    add_field(b, 96, 32); add_field(b, 96, 32); add_field(b, 31, 1); add_field(b, 12, 1); add_field(b, 180, 4);
    return b;
}

static Built build_crf(Rng &r, uint64_t now_ns) {
    Built b;
    std::vector<uint64_t> ts;
    uint64_t base;
    switch (r.below(6)) {
    case 0: base = r.next(); break;                              // anywhere
    case 1: base = r.below(1000000); break;                      // ancient
    case 2: base = now_ns - r.range(0, 2000000000ULL); break;    // recent past
    default: base = now_ns + r.range(0, 30000000); break;        // plausible
    }
    for (int i = 0; i < 6; i++) ts.push_back(base + (uint64_t)i * 3333333ULL);
    b.d = wire::crf((uint8_t)r.next(), kCrfStreamId, 1, 0, 48000, 160, ts);
    add_field(b, 0, 8); add_field(b, 8, 1); add_field(b, 9, 3); add_field(b, 14, 1); add_field(b, 16, 8); add_field(b, 24, 8); add_field(b, 32, 64);
    add_field(b, 96, 3); add_field(b, 99, 29); add_field(b, 128, 16, true); add_field(b, 144, 16);
    add_field(b, 160, 64); add_field(b, 160, 64);
    return b;
}

static uint64_t adversarial(Rng &r, const Field &f, size_t dgram_len) {
    uint64_t max = f.w >= 64 ? ~0ULL : ((1ULL << f.w) - 1);
    if (f.is_len && r.chance(0.15)) {
        // limits that appear as constants in the listeners (message size 100, NAL size 1400, receive sizes 1428/1500, 11-bit length)
        static const uint64_t k[] = {23, 24, 25, 26, 27, 99, 100, 101, 1399, 1400, 1401, 1404, 1405, 1428, 1499, 1500, 1501, 0x7ff, 0x800, 0x801, 2048, 2050};
        return k[r.below(22)] & max;
    }
    if (f.is_len) {
        switch (r.below(12)) {
        case 0: return 0;
        case 1: return 1;
        case 2: return r.below(6) & max;
        case 3: return max;
        case 4: return max - 1;
        case 5: return (f.truth + 1) & max;
        case 6: return (f.truth - 1) & max;
        case 7: return (f.truth + r.range(1, 8)) & max;
        case 8: return (dgram_len + r.below(8)) & max;
        case 9: return (dgram_len / 4 + r.below(4)) & max;
        case 10: return (f.truth ^ (1ULL << r.below(f.w))) & max;
        default: return r.next() & max;
        }
    }
    switch (r.below(7)) {
    case 0: return 0;
    case 1: return max;
    case 2: return (f.truth + 1) & max;
    case 3: return (f.truth - 1) & max;
    case 4: return (f.truth ^ (1ULL << r.below(f.w))) & max;
    default: return r.next() & max;
    }
}

static Built build_for(Rng &r, const std::string &scen, bool udp, bool tscf, bool fd, uint64_t now_ns) {
    if (scen == "can") return build_can(r, udp, r.chance(0.7) ? tscf : !tscf, fd, now_ns);
    if (scen == "hello") return build_hello(r, udp, r.chance(0.7) ? tscf : !tscf, now_ns);
    if (scen == "vss") return build_vss(r, udp, r.chance(0.7) ? tscf : !tscf, now_ns);
    if (scen == "cvf") return build_cvf(r, now_ns);
    if (scen == "aaf") return build_aaf(r, now_ns, 4);
    if (scen == "crfL") return r.coin() ? build_crf(r, now_ns) : build_aaf(r, now_ns, 24);
    return build_crf(r, now_ns);
}

static std::vector<uint8_t> synth(Rng &r, const std::string &scen, bool udp, bool tscf, bool fd, uint64_t now_ns, std::string &note) {
    unsigned kind = (unsigned)r.below(10);
    if (kind == 0) {  // uniform random bytes, boundary-biased length
        static const size_t lens[] = {0, 1, 3, 4, 5, 11, 12, 13, 15, 16, 20, 23, 24, 25, 27, 28, 29, 40, 48, 68, 100, 1499, 1500, 1501, 1600};
        size_t n = r.chance(0.6) ? lens[r.below(25)] : r.range(0, 1600);
        note = "random";
        return rnd_bytes(r, n);
    }
    Built b = build_for(r, scen, udp, tscf, fd, now_ns);
    note = "grammar";
    int nm = kind <= 2 ? 0 : (int)r.range(1, 3);
    for (int i = 0; i < nm && !b.fields.empty(); i++) {
        const Field &f = b.fields[r.below(b.fields.size())];
        uint64_t v = adversarial(r, f, b.d.size());
        b.d.put(f.off, f.w, v);
        note += strf("+set(%zu,%u)=%llu", f.off, f.w, (unsigned long long)v);
    }
    if (r.chance(0.25)) {  // truncate
        size_t n;
        switch (r.below(4)) {
        case 0: n = r.below(30); break;
        case 1: n = b.d.size() > 0 ? b.d.size() - 1 - r.below(std::min<size_t>(b.d.size(), 8)) : 0; break;
        default: n = r.below(b.d.size() + 1); break;
        }
        if (n < b.d.size()) { b.d.resize(n); note += strf("+trunc(%zu)", n); }
    } else if (r.chance(0.3)) {  // extend
        size_t target;
        switch (r.below(5)) {
        case 0: target = b.d.size() + r.range(1, 3); break;
        case 1: target = 1500; break;
        case 2: target = r.range(1500, 1600); break;
        case 3: target = 1499; break;
        default: target = b.d.size() + r.range(1, 200); break;
        }
        if (target > b.d.size()) {
            auto x = rnd_bytes(r, target - b.d.size(), r.chance(0.6) ? 1 : -1);
            b.d.append(x);
            note += strf("+extend(%zu)", target);
        }
    }
    return b.d;
}

// mutation ops against the k-th datagram of a real talker
static void gen_mut(Rng &r, Out &o, int node, int dg, const std::string &scen, bool udp, bool tscf, size_t typical_len) {
    // field positions of a representative datagram of this scenario
    Rng r2 = r.fork(99);
    Built b = build_for(r2, scen, udp, tscf, false, 0);
    if (r.chance(0.15)) {
        // move a numeric field by a structured amount: +-1, powers of two, whole media clock periods (125 us), whole seconds
        const Field &f = b.fields[r.below(b.fields.size())];
        static const uint64_t unit[] = {1, 125000, 1000000, 20000000, 1000000000ULL, 3333333};
        uint64_t d = unit[r.below(6)] * (r.chance(0.5) ? r.range(1, 8) : (1ULL << r.below(30)));
        if (r.chance(0.3)) d = 1ULL << r.below(f.w ? f.w : 1);
        if (r.coin()) d = (uint64_t)(-(int64_t)d);
        o.line(strf("mut node=%d dg=%d kind=add a=%zu b=%u c=0x%llx", node, dg, f.off, f.w, (unsigned long long)d));
        return;
    }
    switch (r.below(8)) {
    case 0: o.line(strf("mut node=%d dg=%d kind=trunc a=%llu", node, dg, (unsigned long long)r.below(typical_len + 1))); break;
    case 1: o.line(strf("mut node=%d dg=%d kind=extend a=%llu b=%llu style=%s", node, dg, (unsigned long long)r.range(1, 1600),
                        (unsigned long long)r.next(), (const char *[]){"rand", "nz", "ff", "zero", "ascii"}[r.below(5)])); break;
    case 2: o.line(strf("mut node=%d dg=%d kind=flip a=%llu", node, dg, (unsigned long long)r.below(typical_len * 8 + 1))); break;
    case 3: o.line(strf("mut node=%d dg=%d kind=stale a=%llu", node, dg, (unsigned long long)r.range(1000000, 3000000000ULL))); break;
    case 4: o.line(strf("mut node=%d dg=%d kind=dup a=%llu", node, dg, (unsigned long long)r.range(0, 3000000))); break;
    default: {
        const Field &f = b.fields[r.below(b.fields.size())];
        Field g = f;
        g.truth = r.below(64);
        o.line(strf("mut node=%d dg=%d kind=set a=%zu b=%u c=%llu", node, dg, f.off, f.w, (unsigned long long)adversarial(r, g, typical_len)));
        break;
    }
    }
}

static std::vector<uint8_t> h264_nal(Rng &r, size_t total) {
    // start code + payload without zero bytes (so no accidental start codes)
    std::vector<uint8_t> v = {0, 0, 1};
    auto p = rnd_bytes(r, total > 3 ? total - 3 : 1, 1);
    v.insert(v.end(), p.begin(), p.end());
    return v;
}

static std::string gen_c18(uint64_t seed, uint64_t idx, bool thorough) {
    Rng r(seed);
    Out o;
    struct Pair { const char *scen; int udp, fd; };
    static const Pair pairs[] = {{"can", 0, 0}, {"can", 1, 0}, {"can", 0, 1}, {"can", 1, 1}, {"cvf", 0, 0}, {"aaf", 0, 0},
                                 {"hello", 0, 0}, {"hello", 1, 0}, {"vss", 0, 0}, {"vss", 1, 0}, {"crfL", 0, 0}, {"crfT", 0, 0}};
    const Pair &pr = pairs[idx % 12];
    std::string scen = pr.scen;
    bool udp = pr.udp, fd = pr.fd, tscf = r.coin();
    bool fault_free = (idx / 12) % 8 == 7;  // separate fault-free stratum: valid traffic only
    // soak stratum (thorough tier only): valid traffic for 10^5..10^6 datagrams, so that whatever a listener accumulates per datagram
    // (counters, budgets, indices) gets the chance to run over
    if (thorough && (idx / 12) % 1000 == 500 && (scen == "cvf" || scen == "aaf" || scen == "hello" || scen == "vss")) {
        uint64_t n = r.coin() ? r.range(1060000, 1200000) : r.range(100000, 500000);
        uint64_t dt = (scen == "cvf" || scen == "aaf") ? r.range(20000, 60000) : 1000000000ULL;  // the hello/vss talkers send once per second on their own
        uint64_t drain = 60000000ULL, tend = 2000000 + n * dt + drain + ((scen == "cvf" || scen == "aaf") ? 200000000ULL : 5000000000ULL);
        o.line(strf("plan v1 engine=net prop=C18 seed=0x%llx idx=%llu", (unsigned long long)seed, (unsigned long long)idx));
        o.line(strf("cfg scen=%s udp=%d fd=0 tscf=%d count=1 mtt=%d soak=1 o0=%d ethpad=0 sched=rtb lat=%llu:%llu cost=%llu:%llu qcap=256 tend=%llu drain=%llu quiet=0 rseed=0x%llx skew0=0 skew1=0 skew2=0",
                    scen.c_str(), udp, (int)tscf, (int)r.range(0, 5), pick_copy(r, 0.5), (unsigned long long)r.range(1000, 20000), (unsigned long long)r.range(20000, 100000),
                    (unsigned long long)r.range(50, 200), (unsigned long long)r.range(200, 1000), (unsigned long long)tend, (unsigned long long)drain, (unsigned long long)r.next()));
        if (scen == "cvf" || scen == "aaf")
            o.line(strf("inrep t=1000000 dt=%llu n=%llu node=0 kind=%s seed=0x%llx", (unsigned long long)dt, (unsigned long long)n, scen == "cvf" ? "nal" : "pcm", (unsigned long long)r.next()));
        return o.s;
    }
    uint64_t rseed = r.next();
    // the date of the run: usually late 2023, in a few runs around or beyond the dates at which 32-bit second counters end
    // (2038-01-19 signed, 2106-02-07 unsigned) - the programs convert between nanosecond timestamps and struct timespec
    uint64_t epoch = pick_epoch(r);
    uint64_t t_origin = epoch * 1000000000ULL + (rseed % 1000000007ULL) * 1000ULL;
    int count = scen == "can" ? (int)(r.chance(0.5) ? 1 : r.range(1, fd ? 6 : 12)) : 1;
    int mtt = (int)(r.chance(0.5) ? 0 : r.range(1, 60));
    // time scales (ns)
    uint64_t unit;  // typical gap between workload items
    uint64_t warm, fault, quiet, tail;
    if (scen == "hello" || scen == "vss") { unit = 1000000000ULL; warm = r.range(0, 2) * unit + 500000000ULL; fault = r.range(1, 4) * unit; quiet = 3 * unit; tail = 200000000ULL; }
    else if (scen == "crfL" || scen == "crfT") { unit = 20000000ULL; warm = r.range(0, 1) * unit + r.range(1, 8) * 1000000ULL; fault = r.range(1, 2) * unit; quiet = unit + 4000000ULL; tail = 4000000ULL; }
    else if (scen == "cvf" || scen == "aaf") { unit = 500000; warm = r.range(0, 20) * unit + 1000000; fault = r.range(4, 60) * unit; quiet = 12 * unit; tail = 4700000000ULL; }
    else { unit = 200000; warm = r.range(0, 20) * unit + 1000000; fault = r.range(4, 80) * unit; quiet = 40 * unit; tail = 150000000ULL; }
    // "long silence" flavour: the fault phase stretches over 11-25 s, so that hostile datagrams are seconds apart (per-stream tables,
    // time-outs and "last seen" bookkeeping age in between)
    if (!fault_free && (scen == "can" || scen == "cvf" || scen == "aaf") && r.chance(0.1)) fault += (r.chance(0.8) ? r.range(11, 25) : r.range(61, 130)) * 1000000000ULL;
    // ... and weeks for the CAN listener, which has no timers and whose talker is driven by the bus (millisecond counters kept in an int
    // end after 24.9 days of uptime)
    if (!fault_free && scen == "can" && r.chance(0.03)) fault += r.range(2148000, 2600000) * 1000000000ULL;
    // ... and for the listeners whose talkers send once a second it covers minutes (rate limiters, "once a minute" bookkeeping)
    if (!fault_free && (scen == "hello" || scen == "vss") && r.chance(0.08)) fault += r.range(62, 150) * 1000000000ULL;
    // "flood" flavour: one datagram is sent thousands of times at line rate (sequence number and timestamp advancing)
    uint64_t flood_n = (!fault_free && r.chance(0.04)) ? r.range(2000, 20000) : 0, flood_dt = r.range(20000, 60000);
    if (flood_n && scen == "can" && r.chance(0.3)) flood_n = r.range(66000, 70000);  // past what 16-bit counters of datagrams hold
    if (flood_n && (scen == "crfL" || scen == "crfT") && r.chance(0.7)) flood_n = r.range(17000, 24000);  // more than twice the nominal 8000 packets per second, for more than a second
    if (flood_n) fault += flood_n * flood_dt;
    uint64_t t1 = warm, t2 = warm + fault, t3 = t2 + quiet;
    uint64_t drain = (scen == "crfL" || scen == "crfT") ? 8000000ULL : 60000000ULL;
    uint64_t tend = t3 + tail + drain + 5000000ULL;
    size_t qcap = (size_t[]){4, 16, 64, 256}[r.below(4)];
    o.line(strf("plan v1 engine=net prop=C18 seed=0x%llx idx=%llu", (unsigned long long)seed, (unsigned long long)idx));
    // real CAN controllers queue a handful of frames for transmission; a burst finds the queue full (write fails with ENOBUFS)
    int cantxq = (scen == "can" && !fault_free && r.chance(0.3)) ? (int[]){1, 4, 10}[r.below(3)] : 0;
    int lstack = r.chance(0.25) ? (int[]){128, 192, 256}[r.below(3)] : 0;
    // "backlog" flavour (AAF/CVF): an early datagram with a presentation time seconds ahead blocks the FIFO queue and dense valid traffic
    // piles up behind it, all of it due at once when the head finally fires
    bool backlog = (scen == "aaf" || scen == "cvf") && !fault_free && r.chance(0.12);
    if (backlog) lstack = 128;
    // what a never-written local variable reads: mostly 0xA5 (a wild value), sometimes zero or small values (what a real, used stack tends to hold)
    int stackfill = r.chance(0.6) ? 0xA5 : (int[]){0x00, 0x00, 0xFF, 0x01}[r.below(4)];
    o.line(strf("cfg scen=%s epoch=%llu tty=%d outfault=%.2f env=%d argorder=%d stackfill=%d udp=%d fd=%d tscf=%d count=%d mtt=%d cantxq=%d lstack=%d o0=%d ethpad=%d sched=%s lat=%llu:%llu cost=%llu:%llu qcap=%zu tend=%llu drain=%llu quiet=%llu rseed=0x%llx skew0=%lld skew1=%lld skew2=%lld",
                scen.c_str(), (unsigned long long)epoch, (int)r.chance(0.3), r.chance(0.08) ? 0.02 + 0.03 * (double)r.below(7) : 0.0, (int)r.chance(0.25), (int)r.coin(), stackfill, udp, fd, tscf, count, mtt, cantxq, lstack, pick_copy(r, 0.35), (int)(!udp && r.chance(0.3)), sched_str(r).c_str(), (unsigned long long)r.range(1000, 50000),
                (unsigned long long)r.range(50000, 1000000), (unsigned long long)r.range(50, 500), (unsigned long long)r.range(500, 20000), qcap,
                (unsigned long long)tend, (unsigned long long)drain, (unsigned long long)t2, (unsigned long long)rseed, (long long)r.range(0, 20000000) - 10000000,
                (long long)r.range(0, 20000000) - 10000000, (long long)r.range(0, 20000000) - 10000000));

    // ---- valid traffic through the real talker(s)
    int talker_dgs = 0;  // estimate of datagrams the talker will emit (upper bound used for mutation indices)
    if (scen == "can") {
        uint64_t t = 1000000;
        int n = 0;
        while (t < t2 && n < 250) { o.line(can_line(t, gen_can_frame(r, fd))); n++; t += gap(r, unit); }
        int nq = count * (int)r.range(2, 4);
        t = t2 + unit;
        for (int i = 0; i < nq; i++) { o.line(can_line(t, gen_can_frame(r, fd))); n++; t += r.range(unit / 4, unit); }
        talker_dgs = n / count + 1;
    } else if (scen == "cvf") {
        uint64_t t = 1000000;
        int n = 0;
        while (backlog ? n < 900 : (t < t2 && n < 120)) {
            auto nal = h264_nal(r, (backlog || r.chance(0.7)) ? r.range(4, 200) : r.range(4, 1400));
            o.line(strf("in t=%llu node=0 data=%s", (unsigned long long)t, sim::hexstr(nal.data(), nal.size()).c_str()));
            n++; t += backlog ? r.range(1000, 20000) : gap(r, unit) + 1;
        }
        t = t2 + unit;
        for (int i = 0; i < 6; i++) {
            auto nal = h264_nal(r, r.range(4, 300));
            o.line(strf("in t=%llu node=0 data=%s", (unsigned long long)t, sim::hexstr(nal.data(), nal.size()).c_str()));
            n++; t += unit;
        }
        talker_dgs = n;
    } else if (scen == "aaf") {
        uint64_t t = 1000000;
        int n = 0;
        while (backlog ? n < 1500 : (t < t2 && n < 250)) {
            int k = (int)r.range(1, 4);
            auto pcm = rnd_bytes(r, 4 * k);
            o.line(strf("in t=%llu node=0 data=%s", (unsigned long long)t, sim::hexstr(pcm.data(), pcm.size()).c_str()));
            n += k; t += backlog ? r.range(1000, 20000) : gap(r, unit) + 1;
        }
        t = t2 + unit;
        for (int i = 0; i < 6; i++) {
            auto pcm = rnd_bytes(r, 4);
            o.line(strf("in t=%llu node=0 data=%s", (unsigned long long)t, sim::hexstr(pcm.data(), pcm.size()).c_str()));
            n++; t += unit;
        }
        talker_dgs = n + 4;
    } else if (scen == "hello" || scen == "vss") {
        talker_dgs = (int)(t3 / 1000000000ULL) + 2;
    } else {
        talker_dgs = (int)(t3 / 20000000ULL) + 2;
    }

    if (backlog)  // move the presentation time of one of the first datagrams 1..4 s ahead
        o.line(strf("mut node=0 dg=%d kind=add a=96 b=32 c=%llu", (int)r.below(3), (unsigned long long)r.range(1000000000ULL, 4000000000ULL)));
    if (!fault_free) {
        // ---- swarm: which fault kinds are enabled in this run
        bool en_synth = r.chance(0.8), en_mut = r.chance(0.6), en_net = r.chance(0.4), en_stall = r.chance(0.3);
        if (!en_synth && !en_mut) en_synth = true;
        int first_fault_dg = 0, last_fault_dg = 0;
        {   // datagram index range of the talker that falls into the fault phase (approximate)
            double a = (double)t1 / (double)t3, b2 = (double)t2 / (double)t3;
            first_fault_dg = (int)(a * talker_dgs);
            last_fault_dg = std::max(first_fault_dg + 1, (int)(b2 * talker_dgs) - 1);
        }
        if (en_synth && r.chance(0.15)) {
            // the hostile datagram comes first: the legitimate talkers start late, so the listener has seen no valid traffic yet
            uint64_t hs_end = r.range(t1, t2 - 1);
            o.line(strf("stall t=0 node=0 dur=%llu", (unsigned long long)hs_end));
            if (scen == "crfL") o.line(strf("stall t=0 node=1 dur=%llu", (unsigned long long)hs_end));
            int n = (int)r.range(1, 3);
            for (int i = 0; i < n; i++) {
                uint64_t t = r.range(300000, std::max<uint64_t>(hs_end, 400000));
                std::string note;
                auto d = synth(r, scen, udp, tscf, fd, t_origin + t, note);
                o.line(strf("inj t=%llu data=%s note=first-%s", (unsigned long long)t, sim::hexstr(d.data(), d.size()).c_str(), note.c_str()));
            }
        }
        if (flood_n) {
            std::string note;
            uint64_t tf = r.range(t1, t2 - flood_n * flood_dt);
            std::vector<uint8_t> d;
            if (r.chance(0.7)) { Built bb = build_for(r, scen, udp, tscf, fd, t_origin + tf); d.assign(bb.d.begin(), bb.d.end()); }
            else d = synth(r, scen, udp, tscf, fd, t_origin + tf, note);
            size_t ho = udp ? 4 : 0;
            bool control = scen == "can" || scen == "hello" || scen == "vss";
            size_t seq_bit = ho * 8 + ((control && !tscf) ? 24 : 16);
            // per copy: sequence number +1; where the format has a 32-bit timestamp: + one media clock period (or + the flood interval)
            std::string step = strf("%zu:8:1", seq_bit);
            if (!control || tscf) step += strf(",%zu:32:%llu", ho * 8 + 96, (unsigned long long)(r.coin() ? 125000 : flood_dt));
            o.line(strf("injrep t=%llu dt=%llu n=%llu data=%s step=%s", (unsigned long long)tf, (unsigned long long)flood_dt, (unsigned long long)flood_n,
                        sim::hexstr(d.data(), d.size()).c_str(), step.c_str()));
        }
        if (en_synth) {
            int n = (int)(r.chance(0.3) ? r.range(1, 3) : r.range(1, r.chance(thorough ? 0.4 : 0.2) ? (thorough ? 400 : 200) : 40));
            for (int i = 0; i < n; i++) {
                uint64_t t = r.range(t1, t2 > t1 + 1 ? t2 - 1 : t1);
                std::string note;
                auto d = synth(r, scen, udp, tscf, fd, t_origin + t, note);
                o.line(strf("inj t=%llu data=%s note=%s", (unsigned long long)t, sim::hexstr(d.data(), d.size()).c_str(), note.c_str()));
            }
        }
        size_t typical = scen == "can" ? (udp ? 4 : 0) + (tscf ? 24 : 12) + 24 * count : scen == "cvf" ? 128 : scen == "aaf" ? 28 : scen == "hello" ? 40 : scen == "vss" ? 48 : 68;
        if (en_mut && last_fault_dg > first_fault_dg) {
            int n = (int)r.range(1, 12);
            for (int i = 0; i < n; i++) gen_mut(r, o, 0, (int)r.range(first_fault_dg, last_fault_dg), scen, udp, tscf, typical);
            if (scen == "crfL") {
                // the AAF stream of the helper talker (8 kHz) gets its own share
                int ka = (int)(t1 / 125000), kb = (int)(t2 / 125000);
                int m = (int)r.range(0, 8);
                for (int i = 0; i < m && kb > ka; i++) gen_mut(r, o, 1, (int)r.range(ka, kb), "aaf", udp, tscf, 48);
            }
        }
        if (en_net && last_fault_dg > first_fault_dg)
            gen_net_faults(r, o, 0, first_fault_dg, last_fault_dg, 0.05 * r.below(6), 0.05 * r.below(6), 0.05 * r.below(6), 5 * unit);
        if (scen == "crfL" && r.chance(0.5)) {
            // start-up order faults: lose or delay the first CRF datagrams so that AAF arrives first
            int k = (int)r.range(1, 3);
            for (int i = 0; i < k; i++) o.line(strf("mut node=0 dg=%d kind=%s a=%llu", i, r.coin() ? "drop" : "delay", (unsigned long long)r.range(1000000, 60000000)));
        }
        if (en_stall) {
            int n = (int)r.range(1, 3);
            for (int i = 0; i < n; i++) {
                // a stall ends before the faults stop (the quiet phase promises a listener that is being scheduled)
                uint64_t ts = r.range(t1, t2 - 1), maxd = std::min<uint64_t>(unit * 4, t2 - ts);
                o.line(strf("stall t=%llu node=%d dur=%llu", (unsigned long long)ts, scen == "crfL" ? 2 : 1, (unsigned long long)r.range(std::min<uint64_t>(unit / 10, maxd), maxd)));
            }
        }
    }
    return o.s;
}

std::string gen_plan(const std::string &prop, uint64_t base_seed, uint64_t idx, bool thorough) {
    uint64_t seed = sim::run_seed(base_seed, ("net/" + prop).c_str(), idx);
    if (prop == "C19") return gen_tunnel(seed, idx, thorough);
    return gen_c18(seed, idx, thorough);
}

std::vector<std::string> simplify_line(const std::string &line) {
    std::vector<std::string> out;
    sim::KV kv(line);
    if (kv.op == "can") {
        // shorter data, simpler id
        std::string data = kv.str("data");
        unsigned len = (unsigned)kv.u64("len");
        if (len > 0 && !kv.has("ff")) {
            unsigned nl = len / 2;
            std::string l = strf("can t=%llu id=%s fl=%s len=%u data=%s", (unsigned long long)kv.u64("t"), kv.str("id").c_str(), kv.str("fl").c_str(), nl,
                                 data.substr(0, 2 * nl).c_str());
            out.push_back(l);
        }
    } else if (kv.op == "inj") {
        std::string data = kv.str("data");
        if (data.size() > 8) {
            out.push_back(strf("inj t=%llu data=%s note=%s", (unsigned long long)kv.u64("t"), data.substr(0, (data.size() / 4) * 2).c_str(), kv.str("note").c_str()));
            out.push_back(strf("inj t=%llu data=%s note=%s", (unsigned long long)kv.u64("t"), data.substr(0, data.size() - 2).c_str(), kv.str("note").c_str()));
        }
    } else if (kv.op == "cfg") {
        // simplest scheduling policy
        if (kv.str("sched") != "rtb") {
            std::string l = line;
            size_t p = l.find("sched=");
            size_t e = l.find(' ', p);
            l.replace(p, e - p, "sched=rtb");
            out.push_back(l);
        }
    }
    return out;
}

}  // namespace net
