#include "world.h"
#include <signal.h>
#include <arpa/inet.h>
#include <errno.h>
#include <linux/can/raw.h>
#include <linux/if.h>
#include <linux/if_ether.h>
#include <linux/if_packet.h>
#include <netinet/in.h>
#include <poll.h>
#include <stdarg.h>
#include <sys/ioctl.h>
#include <sys/socket.h>
#include <sys/timerfd.h>
#include <time.h>
#include <unistd.h>
#include <algorithm>
#include <cstring>
#include "../../sim/cov.h"
#include "../../sim/symtab.h"

using sim::strf;

namespace net {

World *g_world = nullptr;
Node *g_handler_node = nullptr;
static FILE *g_logf = nullptr;
void set_log_file(FILE *f) { g_logf = f; }

World::World(uint64_t seed) : rng_sched(sim::mix64(seed, 1)), rng_cost(sim::mix64(seed, 2)), rng_net(sim::mix64(seed, 3)) {
    g_world = this;
    sim::g_tasks = &tasks;
    fds.resize(64);
}

void World::log(const char *kind, uint64_t a, uint64_t b, const void *data, size_t n) {
    sim::Task *t = tasks.cur();
    int tid = t ? t->id : -1;
    digest.add64(event_seq);
    digest.add64(now);
    digest.add64((uint64_t)(int64_t)tid);
    digest.adds(kind);
    digest.add64(a);
    digest.add64(b);
    if (n) digest.add(data, n);
    if (verbose) {
        if (!g_logf) g_logf = stdout;
        fprintf(g_logf, "%6llu t=%-12llu %-10s %-14s a=%llu b=%llu", (unsigned long long)event_seq, (unsigned long long)now,
                tid >= 0 ? nodes[tid].name.c_str() : "-", kind, (unsigned long long)a, (unsigned long long)b);
        if (n) fprintf(g_logf, " data[%zu]=%s%s", n, sim::hexstr((const uint8_t *)data, std::min<size_t>(n, 48)).c_str(), n > 48 ? ".." : "");
        fputc('\n', g_logf);
    }
    event_seq++;
    publish();
}

void World::publish() {
    sim::Shm *s = sim::g_shm;
    if (!s) return;
    s->digest = digest.h;
    s->events = event_seq;
    s->sim_ns = now - t_origin;
    sim::Task *t = tasks.cur();
    if (t) {
        Node &n = nodes[t->id];
        snprintf(s->cur_task, sizeof s->cur_task, "%s", n.name.c_str());
        s->steps = n.handler_steps;
        if (n.in_handler) snprintf(s->in_hand, sizeof s->in_hand, "frame#%llu", (unsigned long long)n.handler_frame);
        else s->in_hand[0] = 0;
    } else {
        s->cur_task[0] = 0;
    }
}

struct ArgvHolder { std::vector<std::string> strs; std::vector<char *> ptrs; };

int World::add_node(const std::string &name, const std::string &prog, int (*mainfn)(int, char **), const std::vector<std::string> &argv,
                    bool is_listener) {
    Node n;
    n.name = name;
    n.prog = prog;
    n.argv = argv;
    n.is_listener = is_listener;
    int id = (int)nodes.size();
    auto *h = new ArgvHolder();
    h->strs.push_back(prog);
    for (auto &a : argv) h->strs.push_back(a);
    for (auto &s : h->strs) h->ptrs.push_back(&s[0]);
    h->ptrs.push_back(nullptr);
    int tid = tasks.spawn(name, [mainfn, h]() -> int { return mainfn((int)h->strs.size(), h->ptrs.data()); });
    n.task = tid;
    n.rand_state = sim::mix64(rng_net.next(), id) | 1;
    nodes.push_back(n);
    if (tid != id) { fprintf(stderr, "HARNESS: node/task id mismatch\n"); _Exit(2); }
    return id;
}

void World::at(uint64_t t, std::function<void()> fn) {
    static uint64_t seq = 0;
    events.push(Event{t, seq++, std::move(fn)});
}

Node &World::cur_node() { return nodes[tasks.cur()->id]; }
int World::cur_node_id() { return tasks.cur()->id; }

int World::alloc_fd(FdEnt::Kind k) {
    for (size_t i = 0; i < fds.size(); i++)
        if (fds[i].kind == FdEnt::FREE) {
            fds[i] = FdEnt();
            fds[i].kind = k;
            fds[i].node = cur_node_id();
            return kFdBase + (int)i;
        }
    errno = EMFILE;
    return -1;
}
FdEnt *World::fd(int n) {
    if (n < kFdBase || n >= kFdBase + (int)fds.size()) return nullptr;
    FdEnt *e = &fds[n - kFdBase];
    return e->kind == FdEnt::FREE ? nullptr : e;
}

bool World::fd_readable(int n) {
    FdEnt *e = fd(n);
    if (!e) return false;
    switch (e->kind) {
    case FdEnt::PACKET:
    case FdEnt::UDP: return !e->rxq.empty();
    case FdEnt::CAN: return !e->canq.empty();
    case FdEnt::TIMER: return e->armed && node_time(e->node) >= e->next_expiry;
    default: return false;
    }
}

void World::wake_waiters(int fdnum) {
    for (auto &n : nodes) {
        if (!n.waiting) continue;
        for (int w : n.wait_fds)
            if (w == fdnum) { tasks.wake(tasks.get(n.task)); break; }
    }
}

void World::timer_sched(int fdnum) {
    FdEnt *e = fd(fdnum);
    if (!e || !e->armed) return;
    uint64_t g = e->gen;
    uint64_t nt = node_time(e->node);
    uint64_t when = e->next_expiry > nt ? now + (e->next_expiry - nt) : now;
    at(when, [this, fdnum, g] {
        FdEnt *x = fd(fdnum);
        if (!x || x->gen != g || !x->armed) return;
        log("timer-fire", fdnum);
        count("ev.timer_fire");
        wake_waiters(fdnum);
    });
}

void World::sched_point() {
    steps++;
    now += rng_cost.range(cost_lo, cost_hi);
    bool yield = false;
    if (!events.empty() && events.top().t <= now) yield = true;
    Node &n = cur_node();
    if (n.in_handler && ++n.handler_calls > call_budget && on_call_budget) on_call_budget(n);
    if (n.stall_until > now) yield = true;
    switch (sched.kind) {
    case SchedCfg::RAND: if (rng_sched.chance(sched.p_yield)) yield = true; break;
    case SchedCfg::PCT: yield = true; break;  // main loop re-evaluates priorities
    case SchedCfg::RR: if (--rr_left_ <= 0) yield = true; break;
    case SchedCfg::RTB: break;
    }
    if (yield) tasks.yield();
}

void World::block_on(std::vector<int> wait_fds, uint64_t wake_time) {
    Node &n = cur_node();
    n.waiting = true;
    n.wait_fds = std::move(wait_fds);
    n.wake_time = wake_time;
    if (wake_time) {
        int tid = n.task;
        at(wake_time, [this, tid] {
            Node &x = nodes[tid];
            if (x.waiting) tasks.wake(tasks.get(tid));
        });
    }
    tasks.block();
    Node &m = cur_node();
    m.waiting = false;
    m.wait_fds.clear();
}

bool World::deliver_signals() {
    Node &n = cur_node();
    bool eintr = false;
    while (n.sig_pending) {
        int sig = __builtin_ctz(n.sig_pending);
        n.sig_pending &= ~(1u << sig);
        Node::SigAct a = n.sigact[sig];
        if (a.ign) continue;
        if (!a.handler) {  // default action of SIGALRM and its like: the process is terminated
            count("ev.killed_by_signal");
            log("killed-by-signal", (uint64_t)sig);
            tasks.exit_task(128 + sig, true);
        }
        count("ev.signal_handler_run");
        log("signal", (uint64_t)sig);
        if (a.siginfo) ((void (*)(int, siginfo_t *, void *))a.handler)(sig, nullptr, nullptr); else a.handler(sig);
        if (!a.restart) eintr = true;
    }
    if (eintr) count("fault.eintr");
    return eintr;
}

void World::process_due() {
    while (!events.empty() && events.top().t <= now) {
        Event ev = events.top();
        events.pop();
        ev.fn();
    }
}

sim::Task *World::pick() {
    std::vector<sim::Task *> run;
    for (auto *t : tasks.all())
        if (t->state == sim::Task::RUNNABLE && nodes[t->id].stall_until <= now) run.push_back(t);
    if (run.empty()) return nullptr;
    sim::Task *c = nullptr;
    switch (sched.kind) {
    case SchedCfg::RAND: c = run[rng_sched.below(run.size())]; break;
    case SchedCfg::PCT: {
        // priority change points: at chosen step counts the running task drops to lowest priority
        while (!pct_points_.empty() && steps >= pct_points_.back()) {
            pct_points_.pop_back();
            if (last_task_ >= 0) nodes[last_task_].pct_prio = rng_sched.below(1000);  // demote below base range
        }
        for (auto *t : run)
            if (!c || nodes[t->id].pct_prio > nodes[c->id].pct_prio) c = t;
        break;
    }
    case SchedCfg::RR: {
        // continue with the next task after the last one
        c = run[0];
        for (auto *t : run)
            if (t->id > last_task_) { c = t; break; }
        rr_left_ = sched.quantum;
        break;
    }
    case SchedCfg::RTB: {
        for (auto *t : run)
            if (t->id == last_task_) c = t;
        if (!c) c = run[rng_sched.below(run.size())];
        break;
    }
    }
    sched_digest.add64((uint64_t)c->id);
    return c;
}

bool World::quiescent() const {
    for (auto *t : const_cast<sim::Tasks &>(tasks).all())
        if (t->state == sim::Task::RUNNABLE) return false;
    return true;
}

void World::run(uint64_t t_end, uint64_t max_events) {
    if (sched.kind == SchedCfg::PCT) {
        for (auto &n : nodes) n.pct_prio = 1000 + rng_sched.below(1000000);
        for (int i = 0; i < sched.pct_changes; i++) pct_points_.push_back(rng_sched.below(sched.pct_horizon));
        std::sort(pct_points_.rbegin(), pct_points_.rend());
    }
    while (!stop) {
        process_due();
        if (now >= t_end || event_seq >= max_events) break;
        sim::Task *t = pick();
        if (!t) {
            // nothing runnable: jump to the next event or to the end of a stall
            uint64_t next = UINT64_MAX;
            if (!events.empty()) next = events.top().t;
            for (auto *x : tasks.all())
                if (x->state == sim::Task::RUNNABLE && nodes[x->id].stall_until > now) next = std::min(next, nodes[x->id].stall_until);
            if (next == UINT64_MAX) break;  // quiescent for ever
            if (next > t_end) { now = t_end; break; }
            if (next > now) now = next;
            continue;
        }
        last_task_ = t->id;
        if (sim::g_shm) {
            Node &rn = nodes[t->id];
            snprintf(sim::g_shm->cur_task, sizeof sim::g_shm->cur_task, "%s", rn.name.c_str());
            if (rn.in_handler) snprintf(sim::g_shm->in_hand, sizeof sim::g_shm->in_hand, "frame#%llu", (unsigned long long)rn.handler_frame);
            else sim::g_shm->in_hand[0] = 0;
        }
        g_handler_node = nodes[t->id].in_handler ? &nodes[t->id] : nullptr;
        tasks.switch_to(t);
        g_handler_node = nullptr;
        if (t->state == sim::Task::DONE) {
            Node &n = nodes[t->id];
            if (!n.waiting) {  // report once
                n.waiting = true;
                log("task-exit", (uint64_t)t->exit_code, t->exited_via_exit);
                if (hooks.on_task_exit) hooks.on_task_exit(*this, t->id, t->exit_code, t->exited_via_exit);
            }
        }
    }
}

// ------------------------------------------------------------------ transport
static bool node_accepts_mac(World &w, int node, const uint8_t mac[6]) {
    for (auto &e : w.fds)
        if (e.kind == FdEnt::PACKET && e.node == node)
            for (auto &m : e.memberships)
                if (m.size() >= 6 && !memcmp(m.data(), mac, 6)) return true;
    return false;
}

static void enqueue_unfiltered(World &w, int fdnum, const Frame &f);
extern "C" uint32_t run_bpf(const std::vector<struct sock_filter> &prog, const uint8_t *d, size_t n);
static void enqueue(World &w, int fdnum, const Frame &f) {
    FdEnt *e = w.fd(fdnum);
    if (!e) return;
    if (!e->bpf.empty()) {
        // (a packet socket of type SOCK_DGRAM and a UDP socket hand the filter the datagram without link-level / IP headers)
        uint32_t keep = run_bpf(e->bpf, f.data.data(), f.data.size());
        if (keep == 0) { w.count("ev.dropped_by_socket_filter"); w.log("bpf-drop", fdnum, f.id); return; }
        if (keep < f.data.size()) { Frame g = f; g.data.resize(keep); w.count("ev.truncated_by_socket_filter"); enqueue_unfiltered(w, fdnum, g); return; }
    }
    enqueue_unfiltered(w, fdnum, f);
}
static void enqueue_unfiltered(World &w, int fdnum, const Frame &f) {
    FdEnt *e = w.fd(fdnum);
    if (!e) return;
    if (e->rcvbuf_bytes) {
        // a socket buffer counts bytes, not datagrams: each queued datagram costs its data plus the kernel's bookkeeping (sk_buff and
        // shared info, about 576 bytes); a new one is refused once what is queued has reached the limit
        auto cost = [](size_t n) { return ((n + 63) & ~(size_t)63) + 576; };
        size_t used = 0;
        for (auto &q : e->rxq) used += cost(q.data.size());
        if (used >= e->rcvbuf_bytes) {
            w.count(used < 212992 ? "ev.dropped_by_reduced_receive_buffer" : "fault.qdrop");
            w.log("rcvbuf-drop", fdnum, f.id);
            return;
        }
    }
    if (e->rxq.size() >= w.rxq_cap) {
        w.count("fault.qdrop");
        w.log("qdrop", fdnum, f.id);
        return;
    }
    e->rxq.push_back(f);
    w.log("deliver", fdnum, f.id, f.data.data(), f.data.size());
    w.count("ev.deliver");
    w.wake_waiters(fdnum);
}

void World::deliver(const Frame &f, uint64_t delay, int only_node, int except_node) {
    at(now + delay, [this, f, only_node, except_node] {
        bool udp_taken = false;
        struct Unreach { World *w; const Frame &f; bool &taken; ~Unreach() {
            // nobody listens on that port: the host answers with ICMP port unreachable, which a *connected* sender gets as ECONNREFUSED
            if (f.udp && !taken && f.src_fd >= 0) { FdEnt *s = w->fd(f.src_fd); if (s && s->kind == FdEnt::UDP && s->connected) { s->pending_err = ECONNREFUSED; w->count("ev.icmp_port_unreachable"); } }
        } } unreach{this, f, udp_taken};
        for (size_t i = 0; i < fds.size(); i++) {
            FdEnt &e = fds[i];
            if (only_node >= 0 && e.node != only_node) continue;
            if (except_node >= 0 && e.node == except_node) continue;
            if (f.udp) {
                if (e.kind == FdEnt::UDP && e.bound && e.proto == f.proto && e.node != f.src_node) { enqueue(*this, kFdBase + (int)i, f); udp_taken = true; }
            } else {
                if (e.kind != FdEnt::PACKET || !e.bound) continue;
                bool all = e.proto == ETH_P_ALL;
                if (!all && e.proto != f.proto) continue;
                if (e.node == f.src_node) {
                    if (all) enqueue(*this, kFdBase + (int)i, f);  // outgoing tap
                    continue;
                }
                if (!node_accepts_mac(*this, e.node, f.dmac)) continue;
                enqueue(*this, kFdBase + (int)i, f);
            }
        }
    });
}

void World::inject_to_node(int node, const Frame &f) {
    for (size_t i = 0; i < fds.size(); i++) {
        FdEnt &e = fds[i];
        if (e.node != node || !e.bound) continue;
        if (e.kind == FdEnt::UDP || e.kind == FdEnt::PACKET) enqueue(*this, kFdBase + (int)i, f);
    }
}

void World::inject_can(int bus, const CanRec &c) {
    for (size_t i = 0; i < fds.size(); i++) {
        FdEnt &e = fds[i];
        if (e.kind != FdEnt::CAN || e.bus != bus || !e.bound) continue;
        if (c.can_id & CAN_ERR_FLAG) {  // error message frames are delivered only to sockets whose error filter asks for that class
            if (!(e.can_err_mask & c.can_id & CAN_ERR_MASK)) { count("ev.can_error_frame_filtered"); continue; }
        }
        if (e.can_filter_set && !(c.can_id & CAN_ERR_FLAG)) {  // receive filters: a frame passes if one of them matches
            bool pass = false;
            size_t matched = 0;
            for (auto &fl : e.can_filters) {
                // (a filter whose mask contains CAN_ERR_FLAG lives in the kernel's list for error message frames: data frames are never compared with it)
                if (fl.can_mask & CAN_ERR_FLAG) continue;
                bool m = ((c.can_id & fl.can_mask & ~CAN_INV_FILTER) == (fl.can_id & fl.can_mask & ~CAN_INV_FILTER));
                if (fl.can_id & CAN_INV_FILTER) m = !m;
                if (m) { matched++; if (!e.can_join_filters) { pass = true; break; } }
            }
            // CAN_RAW_JOIN_FILTERS: the frame is delivered only if all of the socket's filters matched it
            if (e.can_join_filters) pass = matched == e.can_filters.size();
            if (!pass) { count("ev.can_frame_rejected_by_socket_filter"); continue; }
        }
        if (c.fd && !e.canfd_enabled) { count("ev.can_fd_frame_not_accepted"); continue; }  // classic sockets do not see FD frames
        // a receive buffer the program reduced holds only a few frames (each is charged about 768 bytes of socket-buffer memory)
        if (e.rcvbuf_bytes && e.canq.size() * 768 >= e.rcvbuf_bytes && e.canq.size() < 256) { count("ev.dropped_by_reduced_receive_buffer"); continue; }
        if (e.canq.size() >= canq_cap) { count("fault.can_qdrop"); continue; }
        e.canq.push_back(c);
        log("can-rx", kFdBase + i, c.can_id, c.data, c.len);
        wake_waiters(kFdBase + (int)i);
    }
}

void World::feed_stdin(int node, uint64_t t, std::vector<uint8_t> bytes) {
    nodes[node].stdin_chunks.push_back(Node::Chunk{t, std::move(bytes)});
    at(t, [this, node] {
        Node &n = nodes[node];
        if (n.waiting)
            for (int w : n.wait_fds)
                if (w == -2) tasks.wake(tasks.get(n.task));
    });
}

// listener handler accounting: a listener returning to recv/poll/read(timer) has finished its handler
static void handler_done(World &w) {
    Node &n = w.cur_node();
    if (n.is_listener) {
        int me = w.cur_node_id(), open_now = 0;
        for (auto &e : w.fds) if (e.kind != FdEnt::FREE && e.node == me) open_now++;
        if (n.fds_first < 0) { n.fds_first = open_now; n.heap_first = n.heap_live; n.heap_first_bytes = n.heap_live_bytes; }
        else if (open_now > n.fds_first + 8 && w.hooks.on_fd_growth) w.hooks.on_fd_growth(w, me, open_now, n.fds_first);
        uint64_t sp = (uint64_t)(uintptr_t)__builtin_frame_address(0);
        if (!n.sp_first) n.sp_first = n.sp_low = sp;
        else if (sp + 1024 < n.sp_low) {
            n.sp_low = sp;
            n.sp_deeper++;
            if (n.sp_first - sp > (16u << 10) && n.sp_deeper >= 8 && w.hooks.on_stack_growth) w.hooks.on_stack_growth(w, w.cur_node_id(), n.sp_first - sp, n.sp_deeper);
        }
    }
    if (n.is_listener && n.in_handler) {
        n.in_handler = false;
        g_handler_node = nullptr;
        w.count("ev.handler_done");
        if (w.hooks.on_handler_done) w.hooks.on_handler_done(w, w.cur_node_id());
    }
}

}  // namespace net

// ====================================================================== libc seam (--wrap)
using namespace net;

extern "C" {
int __real_socket(int, int, int);
int __real_bind(int, const struct sockaddr *, socklen_t);
int __real_setsockopt(int, int, int, const void *, socklen_t);
int __real_close(int);
ssize_t __real_recv(int, void *, size_t, int);
ssize_t __real_sendto(int, const void *, size_t, int, const struct sockaddr *, socklen_t);
ssize_t __real_read(int, void *, size_t);
ssize_t __real_write(int, const void *, size_t);
int __real_poll(struct pollfd *, nfds_t, int);
int __real_clock_gettime(clockid_t, struct timespec *);
int __real_clock_nanosleep(clockid_t, int, const struct timespec *, struct timespec *);
unsigned __real_sleep(unsigned);
int __real_timerfd_create(int, int);
int __real_timerfd_settime(int, int, const struct itimerspec *, struct itimerspec *);
int __real_rand(void);
void __real_exit(int) __attribute__((noreturn));
int __real_ioctl(int, unsigned long, void *);

static inline bool in_sim() { return g_world && g_world->tasks.in_task(); }

// ---- heap blocks obtained by the programs themselves (calls from code compiled from /repo), per node
namespace {
struct HeapEnt { uintptr_t p; uint32_t n; int16_t node; };
constexpr size_t kHeapTab = 1 << 16;
HeapEnt g_heap[kHeapTab];
inline size_t heap_slot(uintptr_t p) { return (size_t)((p >> 4) * 0x9E3779B97F4A7C15ULL >> 48) & (kHeapTab - 1); }
void heap_add(void *p, size_t n, uintptr_t pc) {
    if (!p || !in_sim() || !sim::g_symtab.is_repo(pc)) return;
    Node &nd = g_world->cur_node();
    size_t s = heap_slot((uintptr_t)p);
    for (size_t k = 0; k < kHeapTab; k++, s = (s + 1) & (kHeapTab - 1))
        if (g_heap[s].p == 0 || g_heap[s].p == 1) { g_heap[s] = HeapEnt{(uintptr_t)p, (uint32_t)n, (int16_t)g_world->cur_node_id()}; break; }
    nd.heap_live++; nd.heap_live_bytes += (int64_t)n; nd.heap_allocs++;
}
void heap_del(void *p) {
    if (!p || !g_world) return;
    size_t s = heap_slot((uintptr_t)p);
    for (size_t k = 0; k < kHeapTab; k++, s = (s + 1) & (kHeapTab - 1)) {
        if (g_heap[s].p == 0) return;
        if (g_heap[s].p == (uintptr_t)p) {
            Node &nd = g_world->nodes[g_heap[s].node];
            nd.heap_live--; nd.heap_live_bytes -= g_heap[s].n;
            g_heap[s].p = 1;  // tombstone
            return;
        }
    }
}
}  // namespace
void *__real_malloc(size_t);
void *__real_calloc(size_t, size_t);
void *__real_realloc(void *, size_t);
void __real_free(void *);
void *__wrap_malloc(size_t n) { void *p = __real_malloc(n); heap_add(p, n, (uintptr_t)__builtin_return_address(0)); return p; }
void *__wrap_calloc(size_t a, size_t b) { void *p = __real_calloc(a, b); heap_add(p, a * b, (uintptr_t)__builtin_return_address(0)); return p; }
void *__wrap_realloc(void *o, size_t n) { heap_del(o); void *p = __real_realloc(o, n); heap_add(p, n, (uintptr_t)__builtin_return_address(0)); return p; }
void __wrap_free(void *p) { heap_del(p); __real_free(p); }

// The programs run with an empty environment; in some runs every variable that program code itself asks for is "set" (to "1"),
// so that whatever hides behind a debug switch runs (cooperative fault point; libc's own lookups are not affected)
char *__real_getenv(const char *);
char *__real_secure_getenv(const char *);
static char *net_env_answer(const char *name, uintptr_t pc, char *real) {
    if (!in_sim() || !sim::g_symtab.is_repo(pc)) return real;
    g_world->count("ev.getenv_by_program");
    if (!g_world->env_on) return nullptr;
    // a plausible value for the variable asked for, chosen by the run's seed: well-known variables get values of their kind,
    // anything else a switch-like value, a number, an empty string, a path or an over-long string
    static char vals[][320] = {"1", "0", "", "yes", "true", "on", "2", "65536", "-1", "/dev/null", "/tmp", "debug", "all",
                               "xterm-256color", "xterm", "vt100", "dumb", "linux", "screen-256color",
                               "C", "C.UTF-8", "en_US.UTF-8", "de_DE.ISO-8859-1", "UTC", "Europe/Berlin", ":/etc/localtime", ""};
    static bool filled = false;
    if (!filled) { memset(vals[26], 'A', 300); vals[26][300] = 0; filled = true; }
    uint64_t h = sim::mix64(g_world->env_seed, 0x9e37);
    for (const char *c = name; c && *c; c++) h = sim::mix64(h, (uint64_t)(unsigned char)*c);
    auto pick = [&](int lo, int n) { return vals[lo + (int)(h % (uint64_t)n)]; };
    if (name && !strcmp(name, "TERM")) return pick(13, 6);
    if (name && (!strncmp(name, "LC_", 3) || !strcmp(name, "LANG") || !strcmp(name, "LANGUAGE"))) return pick(19, 4);
    if (name && !strcmp(name, "TZ")) return pick(23, 3);
    if (name && (!strcmp(name, "HOME") || !strcmp(name, "TMPDIR") || !strcmp(name, "PWD"))) return pick(9, 2);
    if (name && (!strcmp(name, "COLUMNS") || !strcmp(name, "LINES"))) return pick(6, 3);
    if (h % 10 < 4) return vals[0];  // most switches are tested for "set" or for "1"
    return vals[h / 16 % 27];
}
char *__wrap_getenv(const char *n) { return net_env_answer(n, (uintptr_t)__builtin_return_address(0), __real_getenv(n)); }
char *__wrap_secure_getenv(const char *n) { return net_env_answer(n, (uintptr_t)__builtin_return_address(0), __real_secure_getenv(n)); }

int __real_sigaction(int, const struct sigaction *, struct sigaction *);
int __wrap_sigaction(int sig, const struct sigaction *act, struct sigaction *old) {
    if (!in_sim()) return __real_sigaction(sig, act, old);
    World &w = *g_world;
    if (sig <= 0 || sig >= 32 || sig == SIGKILL || sig == SIGSTOP) { errno = EINVAL; return -1; }
    Node &n = w.cur_node();
    if (old) { memset(old, 0, sizeof *old); old->sa_handler = n.sigact[sig].ign ? SIG_IGN : n.sigact[sig].handler ? n.sigact[sig].handler : SIG_DFL; }
    if (act) {
        Node::SigAct a;
        a.siginfo = act->sa_flags & SA_SIGINFO;
        void (*h)(int) = a.siginfo ? (void (*)(int))act->sa_sigaction : act->sa_handler;
        a.ign = h == SIG_IGN;
        a.handler = (h == SIG_IGN || h == SIG_DFL) ? nullptr : h;
        a.restart = act->sa_flags & SA_RESTART;
        n.sigact[sig] = a;
        w.count("ev.sigaction");
    }
    return 0;
}
typedef void (*sim_sighandler_t)(int);
sim_sighandler_t __real_signal(int, sim_sighandler_t);
sim_sighandler_t __wrap_signal(int sig, sim_sighandler_t h) {
    if (!in_sim()) return __real_signal(sig, h);
    struct sigaction a, o;
    memset(&a, 0, sizeof a);
    a.sa_handler = h;
    a.sa_flags = SA_RESTART;  // glibc's signal() has BSD semantics
    if (__wrap_sigaction(sig, &a, &o) < 0) return SIG_ERR;
    return o.sa_handler;
}
unsigned __real_alarm(unsigned);
unsigned __wrap_alarm(unsigned sec) {
    if (!in_sim()) return __real_alarm(sec);
    World &w = *g_world;
    int node = w.cur_node_id();
    uint64_t gen = ++w.nodes[node].alarm_gen;
    w.count("ev.alarm");
    if (sec) w.at(w.now + (uint64_t)sec * 1000000000ULL, [&w, node, gen] {
        Node &n = w.nodes[node];
        if (n.alarm_gen != gen) return;
        n.sig_pending |= 1u << SIGALRM;
        if (n.waiting) w.tasks.wake(w.tasks.get(n.task));
    });
    return 0;
}

char *__real_setlocale(int, const char *);
char *__wrap_setlocale(int cat, const char *loc) {
    if (!in_sim() || !loc || *loc) return __real_setlocale(cat, loc);
    // setlocale(cat, "") takes the locale from the environment, which libc reads itself: in the runs whose environment is populated
    // it names a UTF-8 locale half of the time
    g_world->count("ev.setlocale_from_environment");
    if (g_world->env_on && (g_world->env_seed & 0x100)) { g_world->count("cfg.utf8_locale"); return __real_setlocale(cat, "C.UTF-8"); }
    return __real_setlocale(cat, "C");
}

int __real_isatty(int);
int __wrap_isatty(int fd) {
    if (!in_sim()) return __real_isatty(fd);
    if (fd >= 0 && fd <= 2) { g_world->count("ev.isatty"); if (g_world->tty) return 1; errno = ENOTTY; return 0; }
    errno = ENOTTY;
    return 0;
}

// classic BPF, as far as socket filters use it (loads from the packet, scratch memory, ALU, jumps, return)
uint32_t run_bpf(const std::vector<struct sock_filter> &prog, const uint8_t *d, size_t n) {
    uint32_t A = 0, X = 0, M[16] = {0};
    for (size_t pc = 0, steps = 0; pc < prog.size() && steps < 4096; pc++, steps++) {
        const struct sock_filter &f = prog[pc];
        uint32_t k = f.k;
        auto ld = [&](size_t off, int sz, bool &ok) -> uint32_t {
            if (off + (size_t)sz > n) { ok = false; return 0; }
            uint32_t v = 0;
            for (int i = 0; i < sz; i++) v = (v << 8) | d[off + i];
            return v;
        };
        bool ok = true;
        switch (BPF_CLASS(f.code)) {
        case BPF_LD: {
            int sz = BPF_SIZE(f.code) == BPF_W ? 4 : BPF_SIZE(f.code) == BPF_H ? 2 : 1;
            switch (BPF_MODE(f.code)) {
            case BPF_ABS: A = ld(k, sz, ok); break;
            case BPF_IND: A = ld((size_t)X + k, sz, ok); break;
            case BPF_IMM: A = k; break;
            case BPF_LEN: A = (uint32_t)n; break;
            case BPF_MEM: A = M[k & 15]; break;
            default: return 0;
            }
            if (!ok) return 0;
            break;
        }
        case BPF_LDX:
            switch (BPF_MODE(f.code)) {
            case BPF_IMM: X = k; break;
            case BPF_LEN: X = (uint32_t)n; break;
            case BPF_MEM: X = M[k & 15]; break;
            case BPF_MSH: { uint32_t b = ld(k, 1, ok); if (!ok) return 0; X = (b & 0xf) << 2; break; }
            default: return 0;
            }
            break;
        case BPF_ST: M[k & 15] = A; break;
        case BPF_STX: M[k & 15] = X; break;
        case BPF_ALU: {
            uint32_t s = BPF_SRC(f.code) == BPF_X ? X : k;
            switch (BPF_OP(f.code)) {
            case BPF_ADD: A += s; break; case BPF_SUB: A -= s; break; case BPF_MUL: A *= s; break;
            case BPF_DIV: if (!s) return 0; A /= s; break; case BPF_MOD: if (!s) return 0; A %= s; break;
            case BPF_AND: A &= s; break; case BPF_OR: A |= s; break; case BPF_XOR: A ^= s; break;
            case BPF_LSH: A <<= (s & 31); break; case BPF_RSH: A >>= (s & 31); break; case BPF_NEG: A = (uint32_t)-(int32_t)A; break;
            default: return 0;
            }
            break;
        }
        case BPF_JMP: {
            uint32_t s = BPF_SRC(f.code) == BPF_X ? X : k;
            bool t;
            switch (BPF_OP(f.code)) {
            case BPF_JA: pc += k; continue;
            case BPF_JEQ: t = A == s; break; case BPF_JGT: t = A > s; break; case BPF_JGE: t = A >= s; break; case BPF_JSET: t = (A & s) != 0; break;
            default: return 0;
            }
            pc += t ? f.jt : f.jf;
            break;
        }
        case BPF_RET: return BPF_RVAL(f.code) == BPF_A ? A : k;
        case BPF_MISC: if (BPF_MISCOP(f.code) == BPF_TAX) X = A; else A = X; break;
        }
    }
    return 0;
}

int __wrap_socket(int domain, int type, int protocol) {
    if (!in_sim()) return __real_socket(domain, type, protocol);
    World &w = *g_world;
    w.sched_point();
    int fd = -1;
    if (domain == AF_PACKET) {
        fd = w.alloc_fd(FdEnt::PACKET);
        if (fd >= 0) w.fd(fd)->proto = ntohs((uint16_t)protocol);
    } else if (domain == AF_INET && (type & 0xf) == SOCK_DGRAM) {
        fd = w.alloc_fd(FdEnt::UDP);
    } else if (domain == PF_CAN) {
        fd = w.alloc_fd(FdEnt::CAN);
    } else {
        errno = EAFNOSUPPORT;
        return -1;
    }
    w.log("socket", (uint64_t)domain, (uint64_t)fd);
    return fd;
}

int __wrap_ioctl(int fd, unsigned long req, ...) {
    va_list ap;
    va_start(ap, req);
    void *arg = va_arg(ap, void *);
    va_end(ap);
    if (!in_sim()) return __real_ioctl(fd, req, arg);
    World &w = *g_world;
    w.sched_point();
    if (req == SIOCGIFINDEX) {
        struct ifreq *r = (struct ifreq *)arg;
        char name[IFNAMSIZ + 1];
        memcpy(name, r->ifr_name, IFNAMSIZ);
        name[IFNAMSIZ] = 0;
        int idx = 0;
        // (each interface also answers to a name of the maximum length, IFNAMSIZ-1 characters)
        if (!strcmp(name, "eth0") || !strcmp(name, "eth-backbone-01")) idx = kIfEth;
        else if (!strcmp(name, "vcan0") || !strcmp(name, "vcan-powertrain")) idx = kIfCanA;
        else if (!strcmp(name, "vcan1") || !strcmp(name, "vcan-body-right")) idx = kIfCanB;
        if (!idx) { errno = ENODEV; return -1; }
        r->ifr_ifindex = idx;
        return 0;
    }
    if (req == TIOCGWINSZ) {
        // the size of the terminal, if the descriptor is one: another input a program reads from its surroundings
        if (fd < 0 || fd > 2 || !w.tty) { errno = ENOTTY; return -1; }
        struct winsize *ws = (struct winsize *)arg;
        static const unsigned short cols[] = {80, 132, 213, 40, 500, 1};
        memset(ws, 0, sizeof *ws);
        ws->ws_col = cols[w.env_seed % 6];
        ws->ws_row = (unsigned short)(24 + w.env_seed / 6 % 40);
        w.count("ev.tiocgwinsz");
        return 0;
    }
    errno = EINVAL;
    return -1;
}

int __real_connect(int, const struct sockaddr *, socklen_t);
int __wrap_connect(int fd, const struct sockaddr *addr, socklen_t len) {
    if (!in_sim()) return __real_connect(fd, addr, len);
    World &w = *g_world;
    w.sched_point();
    FdEnt *e = w.fd(fd);
    if (!e) { errno = EBADF; return -1; }
    if (e->kind != FdEnt::UDP) { errno = EOPNOTSUPP; return -1; }
    (void)addr; (void)len;
    e->connected = true;   // a connected UDP socket is told when the peer's port turns out to be closed (ICMP port unreachable)
    w.count("ev.udp_connect");
    return 0;
}

int __wrap_bind(int fd, const struct sockaddr *addr, socklen_t len) {
    if (!in_sim()) return __real_bind(fd, addr, len);
    World &w = *g_world;
    w.sched_point();
    FdEnt *e = w.fd(fd);
    if (!e) { errno = EBADF; return -1; }
    if (e->kind == FdEnt::PACKET) {
        const struct sockaddr_ll *ll = (const struct sockaddr_ll *)addr;
        if (ll->sll_protocol) e->proto = ntohs(ll->sll_protocol);
        e->ifindex = ll->sll_ifindex;
        e->bound = true;
    } else if (e->kind == FdEnt::UDP) {
        const struct sockaddr_in *in = (const struct sockaddr_in *)addr;
        e->proto = ntohs(in->sin_port);
        e->bound = true;
    } else if (e->kind == FdEnt::CAN) {
        const struct sockaddr_can *ca = (const struct sockaddr_can *)addr;
        e->ifindex = ca->can_ifindex;
        e->bus = ca->can_ifindex == kIfCanA ? 0 : ca->can_ifindex == kIfCanB ? 1 : -1;
        if (e->bus < 0) { errno = ENODEV; return -1; }
        e->bound = true;
    }
    w.log("bind", (uint64_t)fd, e->proto);
    return 0;
}

int __wrap_setsockopt(int fd, int level, int optname, const void *optval, socklen_t optlen) {
    if (!in_sim()) return __real_setsockopt(fd, level, optname, optval, optlen);
    World &w = *g_world;
    w.sched_point();
    FdEnt *e = w.fd(fd);
    if (!e) { errno = EBADF; return -1; }
    if (level == SOL_PACKET && optname == PACKET_ADD_MEMBERSHIP && optlen >= sizeof(struct packet_mreq)) {
        const struct packet_mreq *m = (const struct packet_mreq *)optval;
        e->memberships.push_back(std::vector<uint8_t>(m->mr_address, m->mr_address + 6));
    } else if (level == SOL_CAN_RAW && (optname == CAN_RAW_FD_FRAMES || optname == CAN_RAW_LOOPBACK || optname == CAN_RAW_RECV_OWN_MSGS) && optlen != sizeof(int)) {
        // net/can/raw.c: these options take exactly an int
        w.count("ev.setsockopt_einval"); errno = EINVAL; return -1;
    } else if (level == SOL_CAN_RAW && optname == CAN_RAW_ERR_FILTER && optlen != sizeof(can_err_mask_t)) {
        w.count("ev.setsockopt_einval"); errno = EINVAL; return -1;
    } else if (level == SOL_CAN_RAW && optname == CAN_RAW_FILTER && optlen % sizeof(struct can_filter) != 0) {
        w.count("ev.setsockopt_einval"); errno = EINVAL; return -1;
    } else if (level == SOL_SOCKET && optname == SO_ATTACH_FILTER && optlen == sizeof(struct sock_fprog)) {
        const struct sock_fprog *fp = (const struct sock_fprog *)optval;
        if (!fp->filter || fp->len == 0 || fp->len > BPF_MAXINSNS) { errno = EINVAL; return -1; }
        e->bpf.assign(fp->filter, fp->filter + fp->len);
        w.count("ev.socket_filter_attached");
    } else if (level == SOL_SOCKET && optname == SO_DETACH_FILTER) {
        e->bpf.clear();
    } else if (level == SOL_CAN_RAW && optname == CAN_RAW_FD_FRAMES && optlen >= sizeof(int)) {
        e->canfd_enabled = *(const int *)optval != 0;
    } else if (level == SOL_CAN_RAW && optname == CAN_RAW_LOOPBACK && optlen >= sizeof(int)) {
        e->can_loopback = *(const int *)optval != 0;
    } else if (level == SOL_CAN_RAW && optname == CAN_RAW_FILTER) {
        // as the kernel does: optlen / sizeof(struct can_filter) filters are installed (a length of 0 installs none: nothing is received)
        size_t n = optlen / sizeof(struct can_filter);
        e->can_filters.assign((const struct can_filter *)optval, (const struct can_filter *)optval + n);
        e->can_filter_set = true;
    } else if (level == SOL_CAN_RAW && optname == CAN_RAW_ERR_FILTER && optlen >= sizeof(can_err_mask_t)) {
        e->can_err_mask = *(const can_err_mask_t *)optval;
    } else if (level == SOL_CAN_RAW && optname == CAN_RAW_JOIN_FILTERS) {
        if (optlen != sizeof(int)) { w.count("ev.setsockopt_einval"); errno = EINVAL; return -1; }
        e->can_join_filters = *(const int *)optval != 0;
    } else if (level == SOL_SOCKET && optname == SO_BINDTODEVICE) {
        e->bind_dev.assign((const char *)optval, strnlen((const char *)optval, optlen));
    } else if (level == SOL_SOCKET && optname == SO_RCVBUF && optlen >= sizeof(int)) {
        int v = *(const int *)optval;
        e->rcvbuf_bytes = std::max<size_t>(2304, 2 * (size_t)std::max(0, std::min(v, 212992)));
    } else if (level == IPPROTO_IP && optname == IP_MTU_DISCOVER && optlen >= sizeof(int)) {
        int v = *(const int *)optval;
        e->pmtudisc_do = v == IP_PMTUDISC_DO || v == IP_PMTUDISC_PROBE;
    } else if (level == SOL_SOCKET && optname == SO_RCVTIMEO && optlen >= sizeof(struct timeval)) {
        const struct timeval *tv = (const struct timeval *)optval;
        e->rcvtimeo_ns = (uint64_t)tv->tv_sec * 1000000000ULL + (uint64_t)tv->tv_usec * 1000ULL;
    }
    return 0;
}

int __wrap_close(int fd) {
    if (!in_sim()) return __real_close(fd);
    World &w = *g_world;
    FdEnt *e = w.fd(fd);
    if (e && (e->kind == FdEnt::PACKET || e->kind == FdEnt::UDP) && !e->rxq.empty() && w.hooks.on_close_with_queue) {
        size_t valid = 0;
        for (auto &q : e->rxq) if (!q.damaged && q.src_node >= 0) valid++;
        if (valid) w.hooks.on_close_with_queue(w, e->node, valid);
    }
    if (e) { w.log("close", (uint64_t)fd); *e = FdEnt(); return 0; }
    if (fd >= 0 && fd <= 2) return 0;
    if (fd >= kFdBase) { errno = EBADF; return -1; }
    // garbage descriptors (e.g. close of an uninitialised variable) must not hit the simulator's real fds
    errno = EBADF;
    return -1;
}

ssize_t __wrap_recv(int fd, void *buf, size_t len, int flags) {
    if (!in_sim()) return __real_recv(fd, buf, len, flags);
    World &w = *g_world;
    handler_done(w);
    w.sched_point();
    FdEnt *e = w.fd(fd);
    if (!e || (e->kind != FdEnt::PACKET && e->kind != FdEnt::UDP)) { errno = EBADF; return -1; }
    // an interface that went down and came back leaves ENETDOWN on the packet sockets bound to it: the next receive reports it, once
    if (e->pending_err) { errno = e->pending_err; e->pending_err = 0; w.count("ev.recv_socket_error"); w.log("recv-error", (uint64_t)fd, (uint64_t)errno); return -1; }
    uint64_t rdl = e->rcvtimeo_ns ? w.now + e->rcvtimeo_ns : 0;
    // readiness is a hint: a datagram whose checksum turns out to be wrong is discarded when it is copied, and a non-blocking receive
    // then finds nothing (select(2), BUGS). Cooperative fault point: only programs that ask for MSG_DONTWAIT can see it.
    if ((flags & MSG_DONTWAIT) && (e->rxq.empty() || w.rng_net.chance(0.05))) { w.count("fault.recv_eagain"); w.log("recv-eagain", (uint64_t)fd); errno = EAGAIN; return -1; }
    while (e->rxq.empty()) {
        if (rdl && w.now >= rdl) { w.count("ev.rcvtimeo"); w.log("recv-timeout", (uint64_t)fd); errno = EAGAIN; return -1; }
        w.block_on({fd}, rdl);
        if (w.cur_node().sig_pending && w.deliver_signals()) { errno = EINTR; return -1; }
        e = w.fd(fd);
        if (!e) { errno = EBADF; return -1; }
    }
    Frame f = std::move(e->rxq.front());
    e->rxq.pop_front();
    size_t n = std::min(len, f.data.size());
    if (n) memcpy(buf, f.data.data(), n);
    Node &nd = w.cur_node();
    if (nd.is_listener) {
        nd.in_handler = true;
        nd.handler_steps = 0;
        nd.handler_calls = 0;
        nd.handler_frame = f.id;
        g_handler_node = &nd;
    }
    size_t ret = n;
    if ((flags & MSG_TRUNC) && f.data.size() > n) ret = f.data.size();  // datagram sockets: MSG_TRUNC reports the real length
    w.log("recv", f.id, ret, f.data.data(), n);
    w.count("ev.recv");
    if (f.data.size() > len) w.count("ev.recv_truncated");
    if (w.hooks.on_recv) w.hooks.on_recv(w, w.cur_node_id(), fd, f, n);
    return (ssize_t)ret;
}

ssize_t __wrap_sendto(int fd, const void *buf, size_t len, int flags, const struct sockaddr *addr, socklen_t alen) {
    if (!in_sim()) return __real_sendto(fd, buf, len, flags, addr, alen);
    World &w = *g_world;
    w.sched_point();
    FdEnt *e = w.fd(fd);
    if (!e || (e->kind != FdEnt::PACKET && e->kind != FdEnt::UDP)) { errno = EBADF; return -1; }
    // a socket bound to a device routes through that device only: IP traffic has no route through a CAN interface
    if (e->kind == FdEnt::UDP && !e->bind_dev.empty() && e->bind_dev != "eth0" && e->bind_dev != "eth-backbone-01" && e->bind_dev != "lo") {
        w.count("ev.sendto_enetunreach"); w.log("sendto-enetunreach", (uint64_t)fd); errno = ENETUNREACH; return -1;
    }
    // packet_snd(): the address must be a complete sockaddr_ll (up to and including the 8 address bytes)
    if (e->kind == FdEnt::PACKET && (!addr || alen < sizeof(struct sockaddr_ll))) { w.count("ev.sendto_einval"); w.log("sendto-einval", (uint64_t)fd, (uint64_t)alen); errno = EINVAL; return -1; }
    if (e->pending_err) { errno = e->pending_err; e->pending_err = 0; w.count("ev.sendto_econnrefused"); w.log("sendto-econnrefused", (uint64_t)fd); return -1; }
    // a non-blocking send may find the transmit queue full (cooperative fault point: only programs that ask for MSG_DONTWAIT see it)
    if ((flags & MSG_DONTWAIT) && w.rng_net.chance(0.1)) { w.count("fault.sendto_eagain"); w.log("sendto-eagain", (uint64_t)fd); errno = EAGAIN; return -1; }
    // UDP: MSG_MORE corks the socket - the data waits for the send that completes the datagram (a packet socket ignores the flag)
    std::vector<uint8_t> corked;
    if (e->kind == FdEnt::UDP && ((flags & MSG_MORE) || !e->cork.empty())) {
        if (e->cork.size() + len > 65507) { e->cork.clear(); w.count("ev.sendto_emsgsize"); errno = EMSGSIZE; return -1; }
        e->cork.insert(e->cork.end(), (const uint8_t *)buf, (const uint8_t *)buf + len);
        if (flags & MSG_MORE) { w.count("ev.sendto_corked"); w.log("sendto-corked", (uint64_t)fd, len); return (ssize_t)len; }
        corked.swap(e->cork);
        buf = corked.data();
    }
    size_t user_len = len;
    if (!corked.empty()) len = corked.size();
    // what does not fit: a packet socket takes no more than the interface MTU (1500), a UDP socket no more than an IP datagram can
    // carry, and no more than one unfragmented packet (1500 - 20 - 8) when path-MTU discovery forbids fragmentation
    if ((e->kind == FdEnt::PACKET && len > 1500) || (e->kind == FdEnt::UDP && (len > 65507 || (e->pmtudisc_do && len > 1472)))) {
        w.count("ev.sendto_emsgsize"); w.log("sendto-emsgsize", (uint64_t)fd, len); errno = EMSGSIZE; return -1;
    }
    Frame f;
    f.data.assign((const uint8_t *)buf, (const uint8_t *)buf + len);
    Node &nd = w.cur_node();
    f.src_node = w.cur_node_id();
    f.src_fd = fd;
    f.src_index = (int)nd.sent++;
    f.id = w.next_frame_id++;
    if (e->kind == FdEnt::UDP) {
        f.udp = true;
        f.proto = ntohs(((const struct sockaddr_in *)addr)->sin_port);
    } else {
        const struct sockaddr_ll *ll = (const struct sockaddr_ll *)addr;
        f.proto = ntohs(ll->sll_protocol);
        memcpy(f.dmac, ll->sll_addr, 6);
    }
    w.log("sendto", f.id, len, buf, len);
    w.count("ev.sendto");
    if (w.hooks.on_send) w.hooks.on_send(w, f.src_node, f);
    else w.deliver(f, w.rng_net.range(w.lat_lo, w.lat_hi));
    return (ssize_t)user_len;
}

ssize_t __wrap_read(int fd, void *buf, size_t len) {
    if (!in_sim()) return __real_read(fd, buf, len);
    World &w = *g_world;
    if (fd == 0) {
        w.sched_point();
        Node *n = &w.cur_node();
        for (;;) {
            n = &w.cur_node();
            if (!n->stdin_chunks.empty() && n->stdin_chunks.front().t <= w.now) break;
            if (n->stdin_chunks.empty() && n->stdin_eof_at_end) { w.log("stdin-eof"); return 0; }
            w.block_on({-2});
        }
        auto &c = n->stdin_chunks.front();
        size_t avail = c.bytes.size();
        size_t want = std::min(len, avail);
        // seeded short reads (a pipe may return fewer bytes than asked), but never below stdin_first_min on the first read
        size_t give = want;
        if (want > 1 && w.rng_net.chance(0.25)) give = 1 + w.rng_net.below(want);
        if (!n->stdin_read_once && give < std::min(want, n->stdin_first_min)) give = std::min(want, n->stdin_first_min);
        n->stdin_read_once = true;
        if (give < want) w.count("fault.short_read");
        memcpy(buf, c.bytes.data(), give);
        c.bytes.erase(c.bytes.begin(), c.bytes.begin() + give);
        if (c.bytes.empty()) n->stdin_chunks.pop_front();
        w.log("stdin-read", give, len, buf, give);
        return (ssize_t)give;
    }
    FdEnt *e = w.fd(fd);
    if (!e) {
        if (fd >= kFdBase || fd <= 2) { errno = EBADF; return -1; }
        errno = EBADF;
        return -1;
    }
    if (e->kind == FdEnt::CAN) {
        w.sched_point();
        if (w.can_read0_p > 0 && w.rng_net.chance(w.can_read0_p)) {
            w.count("fault.can_read0");
            w.log("can-read0", (uint64_t)fd);
            return 0;
        }
        uint64_t rdl = e->rcvtimeo_ns ? w.now + e->rcvtimeo_ns : 0;
        while (e->canq.empty()) {
            if (rdl && w.now >= rdl) { w.count("ev.rcvtimeo"); w.log("can-read-timeout", (uint64_t)fd); errno = EAGAIN; return -1; }
            w.block_on({fd}, rdl);
            e = w.fd(fd);
            if (!e) { errno = EBADF; return -1; }
        }
        CanRec c = e->canq.front();
        e->canq.pop_front();
        size_t n;
        if (c.fd) {
            struct canfd_frame fr;
            memset(&fr, 0, sizeof fr);
            fr.can_id = c.can_id; fr.len = c.len; fr.flags = c.flags;
            fr.__res0 = (uint8_t)c.junk; fr.__res1 = (uint8_t)(c.junk >> 8);
            memcpy(fr.data, c.data, 64);
            n = std::min(len, sizeof fr);
            memcpy(buf, &fr, n);
        } else {
            struct can_frame fr;
            memset(&fr, 0, sizeof fr);
            fr.can_id = c.can_id; fr.len = c.len;
            fr.__pad = (uint8_t)c.junk; fr.__res0 = (uint8_t)(c.junk >> 8);
            if (c.len == 8) fr.len8_dlc = c.dlc8;
            memcpy(fr.data, c.data, 8);
            n = std::min(len, sizeof fr);
            memcpy(buf, &fr, n);
        }
        w.log("can-read", c.can_id, c.len, c.data, c.len);
        w.count("ev.can_read");
        if (w.hooks.on_can_read) w.hooks.on_can_read(w, w.cur_node_id(), c);
        return (ssize_t)n;
    }
    if (e->kind == FdEnt::TIMER) {
        handler_done(w);
        w.sched_point();
        for (;;) {
            e = w.fd(fd);
            if (!e) { errno = EBADF; return -1; }
            if (e->armed && w.node_time(e->node) >= e->next_expiry) break;
            w.block_on({fd});
        }
        uint64_t nt = w.node_time(e->node), cnt = 1;
        if (e->interval) {
            cnt = 1 + (nt - e->next_expiry) / e->interval;
            e->next_expiry += cnt * e->interval;
            e->gen++;
            w.timer_sched(fd);
        } else {
            e->armed = false;
        }
        if (len < 8) { errno = EINVAL; return -1; }
        memcpy(buf, &cnt, 8);
        w.log("timer-read", (uint64_t)fd, cnt);
        w.count("ev.timer_read");
        if (cnt > 1) w.count("ev.timer_multi_expiry");
        Node &nd = w.cur_node();
        if (nd.is_listener) { nd.in_handler = true; nd.handler_steps = 0; nd.handler_calls = 0; nd.handler_frame = 0; g_handler_node = &nd; }
        return 8;
    }
    errno = EINVAL;
    return -1;
}

ssize_t __wrap_write(int fd, const void *buf, size_t len) {
    if (!in_sim()) return __real_write(fd, buf, len);
    World &w = *g_world;
    if (fd == 1) {
        w.sched_point();
        if (w.stdout_fault_p > 0 && len > 0 && w.rng_net.chance(w.stdout_fault_p)) {
            // standard output is a pipe whose reader has fallen behind (non-blocking: EAGAIN), the call is interrupted, or only a part fits
            Node &nd = w.cur_node();
            nd.stdout_fault_seen = true;
            unsigned k = (unsigned)w.rng_net.below(3);
            w.count(k == 0 ? "fault.stdout_eagain" : k == 1 ? "fault.stdout_eintr" : "fault.stdout_short_write");
            w.log("stdout-write-fault", len, k, buf, std::min<size_t>(len, 16));  // (reads the buffer the program handed over, like the kernel would)
            if (k == 2 && len > 1) {
                size_t part = 1 + (size_t)w.rng_net.below(len - 1);
                if (w.hooks.on_stdout_fd) w.hooks.on_stdout_fd(w, w.cur_node_id(), (const uint8_t *)buf, part);
                return (ssize_t)part;
            }
            errno = k == 1 ? EINTR : EAGAIN;
            return -1;
        }
        w.log("stdout-write", len, 0, buf, len);
        w.count("ev.stdout_write");
        if (w.hooks.on_stdout_fd) w.hooks.on_stdout_fd(w, w.cur_node_id(), (const uint8_t *)buf, len);
        return (ssize_t)len;
    }
    if (fd == 2) return (ssize_t)len;
    FdEnt *e = w.fd(fd);
    if (!e) { errno = EBADF; return -1; }
    if (e->kind == FdEnt::CAN) {
        w.sched_point();
        CanRec c;
        if (len == sizeof(struct can_frame)) {
            struct can_frame fr;
            memcpy(&fr, buf, sizeof fr);
            c.can_id = fr.can_id; c.len = fr.len; c.fd = false;
            if (fr.len > CAN_MAX_DLEN) {  // the kernel refuses frames whose length exceeds the frame type's maximum
                errno = EINVAL; w.log("can-write-einval", len, fr.len); w.count("ev.can_write_einval");
                return -1;
            }
            memcpy(c.data, fr.data, 8);
        } else if (len == sizeof(struct canfd_frame) && e->canfd_enabled) {
            struct canfd_frame fr;
            memcpy(&fr, buf, sizeof fr);
            c.can_id = fr.can_id; c.len = fr.len; c.flags = fr.flags; c.fd = true;
            if (fr.len > CANFD_MAX_DLEN) {
                errno = EINVAL; w.log("can-write-einval", len, fr.len); w.count("ev.can_write_einval");
                return -1;
            }
            memcpy(c.data, fr.data, 64);
        } else {
            errno = EINVAL;
            w.log("can-write-einval", len);
            w.count("ev.can_write_einval");
            return -1;
        }
        if (w.can_txq_cap) {
            if (e->tx_busy_until < w.now) e->tx_busy_until = w.now;
            if ((e->tx_busy_until - w.now + w.can_tx_ns - 1) / w.can_tx_ns >= w.can_txq_cap) {
                errno = ENOBUFS; w.log("can-write-enobufs", c.can_id); w.count("fault.can_enobufs");
                return -1;
            }
            e->tx_busy_until += w.can_tx_ns;
        }
        if (!e->can_loopback) {  // vcan0/vcan1 are virtual interfaces: there is no wire, local delivery is all there is
            w.count("ev.can_write_without_loopback");
            w.log("can-write-no-loopback", c.can_id);
            return (ssize_t)len;
        }
        if (e->bus >= 0) w.bus_log[e->bus].push_back(c);
        w.log("can-write", c.can_id, (uint64_t)c.len | ((uint64_t)c.flags << 8) | ((uint64_t)c.fd << 16), c.data, std::min<size_t>(c.len, 64));
        w.count("ev.can_write");
        if (w.hooks.on_can_write) w.hooks.on_can_write(w, w.cur_node_id(), e->bus, c);
        return (ssize_t)len;
    }
    errno = EINVAL;
    return -1;
}

int __wrap_poll(struct pollfd *pfds, nfds_t n, int timeout) {
    if (!in_sim()) return __real_poll(pfds, n, timeout);
    World &w = *g_world;
    handler_done(w);
    w.sched_point();
    uint64_t deadline = timeout > 0 ? w.now + (uint64_t)timeout * 1000000ULL : 0;
    for (;;) {
        int ready = 0;
        for (nfds_t i = 0; i < n; i++) {
            pfds[i].revents = 0;
            if (pfds[i].fd < 0) continue;
            if (!w.fd(pfds[i].fd)) { pfds[i].revents = POLLNVAL; ready++; continue; }
            // a pending socket error is reported whatever was asked for, and makes the socket readable (the read returns the error)
            if (w.fd(pfds[i].fd)->pending_err && (w.fd(pfds[i].fd)->kind == FdEnt::PACKET || w.fd(pfds[i].fd)->kind == FdEnt::UDP)) { pfds[i].revents |= POLLERR | (pfds[i].events & POLLIN); ready++; continue; }
            if ((pfds[i].events & POLLIN) && w.fd_readable(pfds[i].fd)) { pfds[i].revents |= POLLIN; ready++; }
        }
        if (ready) { w.log("poll", (uint64_t)ready); return ready; }
        if (timeout == 0 || (deadline && w.now >= deadline)) return 0;
        std::vector<int> wf;
        for (nfds_t i = 0; i < n; i++) wf.push_back(pfds[i].fd);
        w.block_on(wf, deadline);
        if (w.cur_node().sig_pending && w.deliver_signals()) { errno = EINTR; return -1; }
    }
}

int __wrap_clock_gettime(clockid_t clk, struct timespec *ts) {
    if (!in_sim()) return __real_clock_gettime(clk, ts);
    World &w = *g_world;
    w.sched_point();
    uint64_t t = w.node_time_q(w.cur_node_id());
    ts->tv_sec = (time_t)(t / 1000000000ULL);
    ts->tv_nsec = (long)(t % 1000000000ULL);
    return 0;
}

int __wrap_clock_nanosleep(clockid_t clk, int flags, const struct timespec *req, struct timespec *rem) {
    if (!in_sim()) return __real_clock_nanosleep(clk, flags, req, rem);
    World &w = *g_world;
    w.sched_point();
    uint64_t t = (uint64_t)req->tv_sec * 1000000000ULL + (uint64_t)req->tv_nsec;
    uint64_t wake;
    if (flags & TIMER_ABSTIME) {
        uint64_t nt = w.node_time(w.cur_node_id());
        wake = t > nt ? w.now + (t - nt) : w.now;
    } else {
        wake = w.now + t;
    }
    w.log("sleep", wake);
    while (w.now < wake) { w.block_on({-3}, wake); if (w.cur_node().sig_pending && w.deliver_signals()) return EINTR; }
    return 0;
}

unsigned __wrap_sleep(unsigned s) {
    if (!in_sim()) return __real_sleep(s);
    World &w = *g_world;
    w.sched_point();
    uint64_t wake = w.now + (uint64_t)s * 1000000000ULL;
    w.log("sleep", wake);
    while (w.now < wake) { w.block_on({-3}, wake); if (w.cur_node().sig_pending && w.deliver_signals()) return (unsigned)((wake - w.now + 999999999ULL) / 1000000000ULL); }
    return 0;
}

int __wrap_timerfd_create(int clk, int flags) {
    if (!in_sim()) return __real_timerfd_create(clk, flags);
    World &w = *g_world;
    w.sched_point();
    int fd = w.alloc_fd(FdEnt::TIMER);
    w.log("timerfd", (uint64_t)fd);
    return fd;
}

int __wrap_timerfd_settime(int fd, int flags, const struct itimerspec *nv, struct itimerspec *ov) {
    if (!in_sim()) return __real_timerfd_settime(fd, flags, nv, ov);
    World &w = *g_world;
    w.sched_point();
    FdEnt *e = w.fd(fd);
    if (!e || e->kind != FdEnt::TIMER) { errno = EBADF; return -1; }
    if (nv->it_value.tv_nsec < 0 || nv->it_value.tv_nsec >= 1000000000L || nv->it_interval.tv_nsec < 0 ||
        nv->it_interval.tv_nsec >= 1000000000L || nv->it_value.tv_sec < 0) {
        errno = EINVAL;
        return -1;
    }
    uint64_t v = (uint64_t)nv->it_value.tv_sec * 1000000000ULL + (uint64_t)nv->it_value.tv_nsec;
    e->gen++;
    if (v == 0) {
        e->armed = false;
    } else {
        e->armed = true;
        e->next_expiry = (flags & TFD_TIMER_ABSTIME) ? v : w.node_time(e->node) + v;
        e->interval = (uint64_t)nv->it_interval.tv_sec * 1000000000ULL + (uint64_t)nv->it_interval.tv_nsec;
        if (e->next_expiry <= w.node_time(e->node)) w.count("ev.timer_armed_in_past");
        w.timer_sched(fd);
    }
    w.log("timer-set", (uint64_t)fd, e->armed ? e->next_expiry : 0);
    return 0;
}

int __wrap_rand(void) {
    if (!in_sim()) return __real_rand();
    Node &n = g_world->cur_node();
    n.rand_state = n.rand_state * 6364136223846793005ULL + 1442695040888963407ULL;
    return (int)((n.rand_state >> 33) & 0x7fffffff);
}

void __wrap_exit(int code) {
    if (!in_sim()) __real_exit(code);
    g_world->tasks.exit_task(code, true);
}

}  // extern "C"
