// Plan (= replay file) of one simulated run of the net engine: configuration, workload operations,
// fault operations. Execution is a pure function of this text.
#pragma once
#include <cstdint>
#include <string>
#include <vector>
#include "world.h"

namespace net {

struct CanW { uint64_t t; CanRec c; };
struct StdinW { uint64_t t; int node; std::vector<uint8_t> bytes; };
struct Mut {
    int node = 0, dg = 0;
    std::string kind;  // drop dup delay stale trunc extend flip set
    uint64_t a = 0, b = 0, c = 0;
    std::string style;
};
struct Inj { uint64_t t; std::vector<uint8_t> data; std::string note; };
struct Stall { uint64_t t; int node; uint64_t dur; };
struct InjRep { uint64_t t = 0, dt = 1, n = 0; std::vector<uint8_t> data; struct Step { size_t bit; unsigned w; uint64_t delta; }; std::vector<Step> steps; };  // one datagram, n copies
struct InRep { uint64_t t = 0, dt = 1, n = 0; int node = 0; std::string kind; uint64_t seed = 1; };  // n stdin chunks generated on the fly (soak runs)

struct Plan {
    std::string prop, scen;
    uint64_t seed = 0, idx = 0, rseed = 1, epoch = 1700000000ULL;
    bool udp = false, fd = false, tscf = false;
    int count = 1, mtt = 0;
    SchedCfg sched;
    uint64_t lat_lo = 20000, lat_hi = 200000, cost_lo = 200, cost_hi = 3000, tend = 100000000ULL, quiet_t = 0, drain = 60000000ULL;
    size_t qcap = 64, cantxq = 0, lstack = 0;  // lstack: stack of the listener limited to this many KiB (0 = the full 512)
    int64_t skew[4] = {0, 0, 0, 0};
    bool stdin_eof = false, ethpad = false, argorder = false;
    int o0 = 0;  // which copy of programs+library runs: 0 = clang -O1, 1 = clang -O0 (unsigned char), 2 = gcc -O2
    int addr = 0;            // 0: aa:bb:cc:dd:ee:02 / 10.0.0.2; 1..3: other destination MAC and IP address
    int port = 0;            // UDP port of the tunnel (0 = the programs' default 17220)
    bool env_on = false;
    double outfault = 0;
    bool tty = false;
    bool longnames = false;  // interfaces are addressed by their 15-character names
    int stackfill = 0xA5;  // byte the task stacks are pre-filled with (what a never-written local reads)
    double read0 = 0;
    uint64_t clkgran = 1;
    std::vector<CanW> can;
    std::vector<StdinW> in;
    std::vector<Mut> mut;
    std::vector<Inj> inj;
    std::vector<Stall> stall;
    struct ClkJump { uint64_t t; int node; int64_t delta; };
    std::vector<ClkJump> clkjump;
    std::vector<InRep> inrep;
    std::vector<InjRep> injrep;
    bool soak = false;
    std::vector<uint64_t> linkflap;  // times at which the Ethernet interface goes down and comes back: packet sockets bound to it report ENETDOWN once
    struct Restart { uint64_t t; bool listener; bool flip = false; };  // flip: the new talker runs with the other control format (-t added / removed)
    std::vector<Restart> restart;   // instants at which the (tunnel) talker or listener process is killed and started again
    std::string mode_str() const;  // e.g. "ntscf,raw,classic"
};

Plan parse_plan(const std::string &text);
std::string gen_plan(const std::string &prop, uint64_t base_seed, uint64_t idx, bool thorough);
void exec_plan(const std::string &text, bool verbose);
sim::RunResult classify_crash(const sim::CrashInfo &ci);
std::vector<std::string> simplify_line(const std::string &line);
void confirm_violation(sim::Engine &e, const std::string &plan, sim::RunResult &r);

}  // namespace net
