// net engine: real example talkers/listeners as tasks over simulated sockets, CAN buses, timers and clocks.
// Serves C18 (listeners survive arbitrary datagrams) and C19 (CAN tunnel is transparent).
#include "../../sim/driver.h"
#include "plan.h"

int main(int argc, char **argv) {
    sim::Engine e;
    e.name = "net";
    e.property = "C19";
    for (int i = 1; i + 1 < argc; i++)
        if (std::string(argv[i]) == "--prop") e.property = argv[i + 1];
    e.gen = net::gen_plan;
    e.exec = net::exec_plan;
    e.on_crash = net::classify_crash;
    e.simplify = net::simplify_line;
    e.confirm = net::confirm_violation;
    e.real_components = {"libopen1722 + libopen1722custom objects built from /repo/src (working tree)",
                         "all 12 example programs and examples/common/common.c built from /repo/examples with -Dmain=<prog>_main",
                         "glibc argp, printf, malloc (ASan allocator)"};
    e.stub_components = {"kernel sockets AF_PACKET/AF_INET/PF_CAN (simos fd table)", "network transport and NIC multicast filter",
                         "CAN buses vcan0/vcan1", "timerfd, CLOCK_REALTIME, clock_nanosleep, sleep", "stdin stream / stdout sink", "rand()"};
    if (e.property == "C19") {
        e.rule = "one run = one seeded plan: tunnel mode (TSCF/NTSCF x raw/UDP x classic/FD, stratified by run index), frames-per-packet, a sequence of "
                 "CAN frames injected on bus A at seeded instants, scheduler policy, latencies and (odd strata) drop/dup/delay/stall faults; "
                 "distinct = distinct event-log digest; non-trivial = the listener received at least one datagram carrying CAN frames";
        e.probes = {"probe.multi_frame_packet", "probe.listener_parsed_multi_acf", "fault.drop", "fault.dup", "fault.delay", "fault.stall", "fault.ethpad", "fault.can_read0"};
        e.assumptions = {"simos models Linux socket/CAN/timerfd semantics as described in DESIGN.md section 4",
                         "only well-formed frames a CAN controller can deliver are generated (no error frames, FDF set on FD frames)"};
        e.quick_runs = 36000;
        e.thorough_runs = 1200000;
    } else {
        e.rule = "one run = one (listener, mode) pair (12 pairs, stratified by run index) with its real talker(s) as traffic source, three phases "
                 "(warm-up, fault phase with synthetic/damaged/duplicated/reordered/stale datagrams and stalls, quiet phase with well-formed probes); "
                 "distinct = distinct event-log digest; non-trivial = the listener received at least one hostile datagram and returned to recv/poll at least once";
        e.probes = {"probe.hostile_datagram_received", "probe.quiet_probe_received", "fault.synth", "fault.field", "fault.trunc", "fault.extend",
                    "fault.flip", "fault.field_add", "fault.ethpad", "fault.stale", "fault.dup", "fault.drop", "fault.delay", "fault.stall", "ev.timer_fire", "ev.recv_truncated"};
        e.assumptions = {"simos models Linux socket/CAN/timerfd semantics as described in DESIGN.md section 4",
                         "reads beyond the received length but inside the listener's own receive array are not flagged",
                         "socket errors, allocation failures and EINTR are not injected (outside the property)"};
        e.quick_runs = 7200;
        e.thorough_runs = 144000;
    }
    e.thorough_run_timeout_s = 400;  // a soak run (thorough tier, or the replay of one) simulates a million datagrams
    e.quick_wall_cap = 200;
    e.thorough_wall_cap = 1700;
    return sim::driver_main(argc, argv, e);
}
