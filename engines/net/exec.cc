// Execution of one plan: builds the world, starts the real example programs as tasks, applies
// workload and faults, evaluates the C18 / C19 oracles.
#include <linux/can.h>
#include <linux/if_ether.h>
#include <unistd.h>
#include <algorithm>
#include <cstring>
#include "../../sim/cov.h"
#include "../../sim/symtab.h"
#include "../../spec/wire.h"
#include <sys/mman.h>
#include "plan.h"

using sim::strf;

// the example programs, compiled from /repo with -Dmain=<name>
extern "C" {
int acf_can_talker_main(int, char **);
int acf_can_listener_main(int, char **);
int cvf_talker_main(int, char **);
int cvf_listener_main(int, char **);
int aaf_talker_main(int, char **);
int aaf_listener_main(int, char **);
int hello_world_talker_main(int, char **);
int hello_world_listener_main(int, char **);
int acf_vss_talker_main(int, char **);
int acf_vss_listener_main(int, char **);
int crf_talker_main(int, char **);
int crf_listener_main(int, char **);
int crf_listener_b_main(int, char **);
// the same programs compiled at -O0 (tools/build_o0.sh)
int O0_acf_can_talker_main(int, char **);
int O0_acf_can_listener_main(int, char **);
int O0_cvf_talker_main(int, char **);
int O0_cvf_listener_main(int, char **);
int O0_aaf_talker_main(int, char **);
int O0_aaf_listener_main(int, char **);
int O0_hello_world_talker_main(int, char **);
int O0_hello_world_listener_main(int, char **);
int O0_acf_vss_talker_main(int, char **);
int O0_acf_vss_listener_main(int, char **);
int O0_crf_talker_main(int, char **);
int O0_crf_listener_main(int, char **);
int O0_crf_listener_b_main(int, char **);
// ... and compiled by gcc -O2 (COPY_PREFIX=G_)
int G_acf_can_talker_main(int, char **);
int G_acf_can_listener_main(int, char **);
int G_cvf_talker_main(int, char **);
int G_cvf_listener_main(int, char **);
int G_aaf_talker_main(int, char **);
int G_aaf_listener_main(int, char **);
int G_hello_world_talker_main(int, char **);
int G_hello_world_listener_main(int, char **);
int G_acf_vss_talker_main(int, char **);
int G_acf_vss_listener_main(int, char **);
int G_crf_talker_main(int, char **);
int G_crf_listener_main(int, char **);
int G_crf_listener_b_main(int, char **);
}
#define PICK(f) (p.o0 == 2 ? G_##f : p.o0 ? O0_##f : f)

namespace net {

static const char *kMacStream = "aa:bb:cc:dd:ee:02";
static const char *kMacCrf = "aa:bb:cc:dd:ee:01";
static const uint8_t kMacStreamB[6] = {0xaa, 0xbb, 0xcc, 0xdd, 0xee, 0x02};
static const uint8_t kMacCrfB[6] = {0xaa, 0xbb, 0xcc, 0xdd, 0xee, 0x01};

std::string Plan::mode_str() const {
    if (scen == "tunnel" || scen == "can") return strf("%s,%s,%s", tscf ? "tscf" : "ntscf", udp ? "udp" : "raw", fd ? "fd" : "classic");
    if (scen == "hello" || scen == "vss") return strf("%s,%s", tscf ? "tscf" : "ntscf", udp ? "udp" : "raw");
    if (scen == "crfL") return "listener";
    if (scen == "crfT") return "talker";
    return "raw";
}

// ---------------------------------------------------------------- plan parsing
static SchedCfg parse_sched(const std::string &s) {
    SchedCfg c;
    size_t col = s.find(':');
    std::string k = s.substr(0, col), a = col == std::string::npos ? "" : s.substr(col + 1);
    if (k == "rand") { c.kind = SchedCfg::RAND; c.p_yield = a.empty() ? 0.3 : atof(a.c_str()); }
    else if (k == "pct") { c.kind = SchedCfg::PCT; c.pct_changes = a.empty() ? 3 : atoi(a.c_str()); size_t c2 = a.find(':'); if (c2 != std::string::npos) c.pct_horizon = strtoull(a.c_str() + c2 + 1, nullptr, 0); }
    else if (k == "rr") { c.kind = SchedCfg::RR; c.quantum = a.empty() ? 5 : atoi(a.c_str()); }
    else c.kind = SchedCfg::RTB;
    return c;
}
static void range2(const std::string &s, uint64_t &lo, uint64_t &hi) {
    size_t col = s.find(':');
    lo = strtoull(s.c_str(), nullptr, 0);
    hi = col == std::string::npos ? lo : strtoull(s.c_str() + col + 1, nullptr, 0);
    if (hi < lo) hi = lo;
}

Plan parse_plan(const std::string &text) {
    Plan p;
    for (auto &line : sim::split_lines(text)) {
        if (line.empty() || line[0] == '#') continue;
        sim::KV kv(line);
        if (kv.op == "plan") {
            p.prop = kv.str("prop");
            p.seed = kv.u64("seed");
            p.idx = kv.u64("idx");
        } else if (kv.op == "cfg") {
            p.scen = kv.str("scen");
            p.udp = kv.u64("udp"); p.fd = kv.u64("fd"); p.tscf = kv.u64("tscf");
            p.count = (int)kv.u64("count", 1); p.mtt = (int)kv.u64("mtt", 0);
            p.sched = parse_sched(kv.str("sched", "rand:0.3"));
            range2(kv.str("lat", "20000:200000"), p.lat_lo, p.lat_hi);
            range2(kv.str("cost", "200:3000"), p.cost_lo, p.cost_hi);
            p.qcap = kv.u64("qcap", 64);
            p.tend = kv.u64("tend", 100000000ULL);
            p.quiet_t = kv.u64("quiet", 0);
            p.drain = kv.u64("drain", 60000000ULL);
            p.rseed = kv.u64("rseed", 1);
            p.epoch = kv.u64("epoch", 1700000000ULL);
            p.outfault = atof(kv.str("outfault", "0").c_str());
            p.tty = kv.u64("tty", 0);
            p.skew[0] = kv.i64("skew0"); p.skew[1] = kv.i64("skew1"); p.skew[2] = kv.i64("skew2");
            p.stdin_eof = kv.u64("eof", 0);
            p.o0 = (int)kv.u64("o0", 0);
            p.ethpad = kv.u64("ethpad", 0);
            p.read0 = atof(kv.str("read0", "0").c_str());
            p.clkgran = kv.u64("clkgran", 1);
            p.cantxq = kv.u64("cantxq", 0);
            p.soak = kv.u64("soak", 0);
            p.lstack = kv.u64("lstack", 0);
            p.argorder = kv.u64("argorder", 0);
            p.longnames = kv.u64("longnames", 0);
            p.port = (int)kv.u64("port", 0);
            p.addr = (int)kv.u64("addr", 0);
            p.env_on = kv.u64("env", 0);
            p.stackfill = (int)kv.u64("stackfill", 0xA5);
        } else if (kv.op == "can") {
            CanW w;
            w.t = kv.u64("t");
            w.c.can_id = (uint32_t)kv.u64("id");
            std::string fl = kv.str("fl");
            if (fl.find('E') != std::string::npos) w.c.can_id |= CAN_EFF_FLAG;
            if (fl.find('R') != std::string::npos) w.c.can_id |= CAN_RTR_FLAG;
            if (fl.find('X') != std::string::npos) w.c.can_id |= CAN_ERR_FLAG;
            w.c.len = (uint8_t)kv.u64("len");
            w.c.flags = (uint8_t)kv.u64("ff", 0);
            w.c.fd = kv.has("ff");
            w.c.dlc8 = (uint8_t)kv.u64("dlc8", 0);
            w.c.junk = (uint16_t)kv.u64("junk", 0);
            auto d = sim::unhex(kv.str("data"));
            memcpy(w.c.data, d.data(), std::min<size_t>(d.size(), 64));
            w.c.tag = p.can.size();
            p.can.push_back(w);
        } else if (kv.op == "in") {
            p.in.push_back(StdinW{kv.u64("t"), (int)kv.u64("node", 0), sim::unhex(kv.str("data"))});
        } else if (kv.op == "mut") {
            Mut m;
            m.node = (int)kv.u64("node", 0); m.dg = (int)kv.u64("dg"); m.kind = kv.str("kind");
            m.a = kv.u64("a"); m.b = kv.u64("b"); m.c = kv.u64("c"); m.style = kv.str("style", "rand");
            p.mut.push_back(m);
        } else if (kv.op == "inj") {
            p.inj.push_back(Inj{kv.u64("t"), sim::unhex(kv.str("data")), kv.str("note")});
        } else if (kv.op == "clkjump") {
            p.clkjump.push_back(Plan::ClkJump{kv.u64("t"), (int)kv.u64("node", 0), kv.i64("delta")});
        } else if (kv.op == "injrep") {
            InjRep ir;
            ir.t = kv.u64("t"); ir.dt = std::max<uint64_t>(1, kv.u64("dt", 1)); ir.n = std::min<uint64_t>(kv.u64("n"), 100000); ir.data = sim::unhex(kv.str("data"));
            std::string st = kv.str("step", "");
            size_t pos = 0;
            while (pos < st.size()) {
                size_t e = st.find(',', pos);
                std::string one = st.substr(pos, e == std::string::npos ? std::string::npos : e - pos);
                size_t c1 = one.find(':'), c2 = one.find(':', c1 + 1);
                if (c1 != std::string::npos && c2 != std::string::npos)
                    ir.steps.push_back(InjRep::Step{(size_t)strtoull(one.c_str(), nullptr, 0), (unsigned)strtoul(one.c_str() + c1 + 1, nullptr, 0), strtoull(one.c_str() + c2 + 1, nullptr, 0)});
                if (e == std::string::npos) break;
                pos = e + 1;
            }
            p.injrep.push_back(ir);
        } else if (kv.op == "inrep") {
            InRep ir;
            ir.t = kv.u64("t"); ir.dt = std::max<uint64_t>(1, kv.u64("dt", 1)); ir.n = kv.u64("n"); ir.node = (int)kv.u64("node", 0);
            ir.kind = kv.str("kind", "nal"); ir.seed = kv.u64("seed", 1);
            p.inrep.push_back(ir);
        } else if (kv.op == "linkflap") {
            p.linkflap.push_back(kv.u64("t"));
        } else if (kv.op == "restart") {
            p.restart.push_back(Plan::Restart{kv.u64("t"), kv.str("who", "talker") == "listener", kv.u64("flip", 0) != 0});
        } else if (kv.op == "stall") {
            p.stall.push_back(Stall{kv.u64("t"), (int)kv.u64("node"), kv.u64("dur")});
        }
    }
    return p;
}

// ---------------------------------------------------------------- run state / oracle
struct RunState {
    Plan plan;
    World *w = nullptr;
    int listener = -1, talker = 0;
    std::vector<std::string> talker_argv, listener_argv;
    int restarts = 0, talker_restarts = 0, listener_restarts = 0;
    bool listener_started = false;  // reached its first recv/poll
    // C19 bookkeeping
    std::vector<CanRec> pending_cargo;                   // frames read by the talker since its last sendto
    std::map<uint64_t, std::vector<CanRec>> cargo;       // frame id -> cargo
    std::vector<CanRec> expected;                        // in listener recv order
    std::vector<uint64_t> expected_src;                  // datagram id per expected frame
    // C18 bookkeeping
    bool quiet = false;
    bool tscf_now = false;  // the control format the running talker was started with
    // CAN listener: once the faults have stopped and the listener has been idle once, every frame it writes must come from a datagram it
    // received after that point (it keeps nothing between datagrams)
    bool settled = false, settled_taint = false;
    uint64_t settled_effects = 0, settled_cargo = 0;
    bool gave_up = false;  // the listener terminated after an injected standard-output error: a legitimate reaction to an I/O error
    uint64_t probes_recv = 0, probe_cargo = 0, effects_after_quiet = 0, damaged_recv = 0, recv_total = 0, handlers_done = 0;
    // soak runs: observable effects and datagrams received, sampled at the borders of an early and a late window of equal length
    uint64_t late_recv = 0;  // datagrams received less than 4.3 s (the range of a 32-bit ns presentation time) before the end of the run
    uint64_t effects_total = 0, win_eff[6] = {0, 0, 0, 0, 0, 0}, win_recv[6] = {0, 0, 0, 0, 0, 0};
    uint64_t last_recv_frame = 0;
    bool last_recv_probe = false;
    std::map<uint64_t, size_t> probe_expect;             // frame id -> number of effects expected
    uint64_t multi_acf_recv = 0;
};
static RunState *g_rs = nullptr;

static sim::RunResult base_result(World &w) {
    sim::RunResult r;
    r.digest = w.digest.h;
    r.sched_digest = w.sched_digest.h;
    r.sim_ns = w.now - w.t_origin;
    r.events = w.event_seq;
    r.counters = w.counters;
    return r;
}

[[noreturn]] static void violation(const std::string &cls, const std::string &detail) {
    RunState &rs = *g_rs;
    World &w = *rs.w;
    sim::RunResult r = base_result(w);
    r.status = 1;
    std::string scen = rs.plan.scen;
    if (rs.plan.prop == "C19") {
        r.sig = strf("tunnel/%s:%s", rs.plan.fd ? "fd" : "classic", cls.c_str());
    } else {
        r.sig = strf("%s/%s:%s", scen.c_str(), rs.plan.mode_str().c_str(), cls.c_str());
    }
    r.detail = strf("[%s %s] ", scen.c_str(), rs.plan.mode_str().c_str()) + detail;
    r.nontrivial = true;

    sim::finish_run(r);
}
[[noreturn]] static void harness_error(const std::string &detail) {
    sim::RunResult r = base_result(*g_rs->w);
    r.status = 2;
    r.sig = "harness";
    r.detail = detail;
    sim::finish_run(r);
}

// independent framing check of what the talker hands to sendto (C19)
static std::string check_framing(const Plan &p, const std::vector<uint8_t> &d, size_t n_cargo) {
    size_t o = p.udp ? wire::UDP_HDR : 0;
    if (d.size() < o + 1) return "length-field: datagram shorter than encapsulation header";
    size_t hdr, announced;
    uint8_t subtype = d[o];
    if (subtype == wire::SUBTYPE_TSCF) {
        hdr = wire::TSCF_HDR;
        if (d.size() < o + hdr) return "length-field: short TSCF header";
        announced = wire::get_bits(d, (o + 20) * 8, 16);
    } else if (subtype == wire::SUBTYPE_NTSCF) {
        hdr = wire::NTSCF_HDR;
        if (d.size() < o + hdr) return "length-field: short NTSCF header";
        announced = wire::get_bits(d, o * 8 + 13, 11);
    } else {
        return strf("subtype: 0x%02x", subtype);
    }
    bool tscf_now = g_rs ? g_rs->tscf_now : p.tscf;  // (a restarted talker may have been given the other format)
    if ((subtype == wire::SUBTYPE_TSCF) != tscf_now) return strf("subtype: 0x%02x in %s mode", subtype, tscf_now ? "tscf" : "ntscf");
    size_t follows = d.size() - o - hdr;
    if (announced != follows) return strf("length-field: header announces %zu bytes, %zu follow", announced, follows);
    size_t pos = o + hdr, sum = 0, msgs = 0;
    while (pos + 2 <= d.size()) {
        size_t ql = wire::get_bits(d, pos * 8 + 7, 9);
        if (ql == 0) return "acf-sum: zero-length ACF message";
        sum += ql * 4;
        pos += ql * 4;
        msgs++;
        if (pos > d.size()) return "acf-sum: ACF message extends beyond the datagram";
    }
    if (sum != follows) return strf("acf-sum: ACF messages occupy %zu bytes, %zu follow the header", sum, follows);
    if (msgs != n_cargo) return strf("acf-sum: %zu ACF messages for %zu CAN frames", msgs, n_cargo);
    return "";
}

static std::string can_str(const CanRec &c) {
    return strf("{id=0x%x%s%s len=%u%s data=%s}", c.can_id & CAN_EFF_MASK, (c.can_id & CAN_EFF_FLAG) ? " EFF" : "",
                (c.can_id & CAN_RTR_FLAG) ? " RTR" : "", c.len, c.fd ? strf(" fdflags=0x%x", c.flags).c_str() : "",
                sim::hexstr(c.data, std::min<size_t>(c.len, 64)).c_str());
}

static void c19_final_check(RunState &rs) {
    World &w = *rs.w;
    auto &out = w.bus_log[1];
    size_t n = std::min(out.size(), rs.expected.size());
    for (size_t i = 0; i < n; i++) {
        const CanRec &e = rs.expected[i], &a = out[i];
        const char *attr = nullptr;
        if ((e.can_id & CAN_EFF_MASK) != (a.can_id & CAN_EFF_MASK)) attr = "id";
        else if ((e.can_id & CAN_EFF_FLAG) != (a.can_id & CAN_EFF_FLAG)) attr = "EFF";
        else if ((e.can_id & CAN_RTR_FLAG) != (a.can_id & CAN_RTR_FLAG)) attr = "RTR";
        else if ((e.can_id & CAN_ERR_FLAG) != (a.can_id & CAN_ERR_FLAG)) attr = "ERR";
        else if (e.fd != a.fd) attr = "frame-type";
        else if (e.len != a.len) attr = "len";
        else if (memcmp(e.data, a.data, e.len)) attr = "data";
        else if (e.fd && (e.flags & CANFD_BRS) != (a.flags & CANFD_BRS)) attr = "flags.BRS";
        else if (e.fd && (e.flags & CANFD_ESI) != (a.flags & CANFD_ESI)) attr = "flags.ESI";
        // (an FD frame read from the bus carries CANFD_FDF in its flags byte on current kernels and not on older ones; it is an FD
        // frame either way, which is what the ACF fdf bit transports: a frame that had the flag must keep it, one that had not may gain it)
        else if (e.fd && (e.flags & CANFD_FDF) && !(a.flags & CANFD_FDF)) attr = "flags.FDF";
        if (attr)
            violation(strf("frame-mismatch:%s", attr), strf("frame %zu of %zu (datagram #%llu): sent %s, listener wrote %s", i, rs.expected.size(),
                                                             (unsigned long long)rs.expected_src[i], can_str(e).c_str(), can_str(a).c_str()));
    }
    if (out.size() != rs.expected.size())
        violation(strf("frame-count:%s", out.size() > rs.expected.size() ? "extra" : "missing"),
                  strf("listener wrote %zu frames, %zu were carried by the datagrams it received", out.size(), rs.expected.size()));
}

// ---------------------------------------------------------------- stdout / stderr capture
static ssize_t cookie_out_write(void *, const char *buf, size_t n) {
    World *w = g_world;
    if (!w || !w->tasks.in_task()) return (ssize_t)n;
    Node &nd = w->cur_node();
    for (size_t i = 0; i < n; i++) {
        if (buf[i] == '\n') {
            w->log("stdout-line", nd.stdout_line.size(), 0, nd.stdout_line.data(), nd.stdout_line.size());
            w->count("ev.stdout_line");
            if (w->hooks.on_stdout_line) w->hooks.on_stdout_line(*w, w->cur_node_id(), nd.stdout_line);
            nd.stdout_line.clear();
        } else if (nd.stdout_line.size() < 8192) {
            nd.stdout_line.push_back(buf[i]);
        }
    }
    return (ssize_t)n;
}
static ssize_t cookie_err_write(void *, const char *, size_t n) { return (ssize_t)n; }

static FILE *g_real_stdout = nullptr;

// ---------------------------------------------------------------- sancov edge callback: coverage + step budget
}  // namespace net

static void net_step(uint64_t pc);
extern "C" void __sanitizer_cov_trace_pc_guard(uint32_t *guard) {
    sim::cov_hit(*guard);
    net_step((uint64_t)__builtin_return_address(0));
}
// (the copy compiled by gcc: basic-block callback without a guard; coverage is accounted on the clang copies)
extern "C" void __sanitizer_cov_trace_pc(void) { net_step((uint64_t)__builtin_return_address(0)); }
static void net_step(uint64_t pc) {
    using namespace net;
    Node *np = g_handler_node;  // the running task's node while it is a listener inside a handler
    if (!np) return;
    Node &n = *np;
    World *w = g_world;
    n.last_pc = pc;
    if (++n.handler_steps > w->step_budget) {
        std::string fn = sim::g_symtab.func(pc);
        n.in_handler = false;
        if (g_rs->plan.prop == "C19") violation(strf("crash:step-budget:%s", fn.c_str()), strf("%s exceeded %llu basic blocks handling one datagram", n.name.c_str(), (unsigned long long)w->step_budget));
        violation(strf("step-budget:%s", fn.c_str()),
                  strf("%s executed more than %llu basic blocks of /repo code after receiving frame#%llu without returning to recv/poll",
                       n.name.c_str(), (unsigned long long)w->step_budget, (unsigned long long)n.handler_frame));
    }
}

namespace net {

// ---------------------------------------------------------------- scenario set-up
static std::vector<std::string> V(std::initializer_list<const char *> l) {
    std::vector<std::string> v;
    for (auto s : l) v.push_back(s);
    return v;
}

static void setup_nodes(RunState &rs) {
    Plan &p = rs.plan;
    World &w = *rs.w;
    auto add = [&](std::vector<std::string> &v, std::initializer_list<const char *> l) { for (auto s : l) v.push_back(s); };
    std::string mtt = std::to_string(p.mtt);
    if (p.scen == "tunnel" || p.scen == "can") {
        // option groups; their order on the command line is seeded (any order is a valid invocation)
        std::vector<std::vector<std::string>> tg, lg;
        if (p.tscf) tg.push_back({"-t"});
        std::string port = std::to_string(p.port ? p.port : 17220);
        static const char *macs[] = {kMacStream, "01:00:5e:7f:ff:fa", "ff:ee:dd:cc:bb:aa", "80:00:00:00:00:80"};
        static const char *ips[] = {"10.0.0.2", "10.0.0.255", "192.168.255.1", "10.0.0.0"};
        const char *mac = macs[p.addr & 3];
        if (p.udp) { tg.push_back({"-u"}); tg.push_back({"--dst-nw-addr", std::string(ips[p.addr & 3]) + ":" + port}); lg.push_back({"-u"}); lg.push_back({"-p", port}); }
        else { tg.push_back({"-i", p.longnames ? "eth-backbone-01" : "eth0"}); tg.push_back({"-d", mac}); lg.push_back({"-i", p.longnames ? "eth-backbone-01" : "eth0"}); lg.push_back({"-d", mac}); }
        if (p.fd) { tg.push_back({"--fd"}); lg.push_back({"--fd"}); }
        tg.push_back({"-c", std::to_string(p.count)});
        tg.push_back({"--canif", p.longnames ? "vcan-powertrain" : "vcan0"});
        lg.push_back({"--canif", p.longnames ? "vcan-body-right" : "vcan1"});
        if (p.argorder) {
            sim::Rng ar(sim::mix64(p.rseed, 0xA26C));
            for (auto *g : {&tg, &lg})
                for (size_t i = g->size(); i > 1; i--) std::swap((*g)[i - 1], (*g)[ar.below(i)]);
            w.count("cfg.shuffled_option_order");
        }
        std::vector<std::string> ta, la;
        for (auto &g : tg) for (auto &x : g) ta.push_back(x);
        for (auto &g : lg) for (auto &x : g) la.push_back(x);
        rs.talker = w.add_node("talker", "acf-can-talker", PICK(acf_can_talker_main), ta, false);
        rs.talker_argv = ta;
        rs.listener = w.add_node("listener", "acf-can-listener", PICK(acf_can_listener_main), la, true);
        rs.listener_argv = la;
    } else if (p.scen == "cvf") {
        w.add_node("talker", "cvf-talker", PICK(cvf_talker_main), V({"-i", "eth0", "-d", kMacStream, "-m", mtt.c_str()}), false);
        rs.listener = w.add_node("listener", "cvf-listener", PICK(cvf_listener_main), V({"-i", "eth0", "-d", kMacStream}), true);
        w.nodes[0].stdin_first_min = 4;
    } else if (p.scen == "aaf") {
        w.add_node("talker", "aaf-talker", PICK(aaf_talker_main), V({"-i", "eth0", "-d", kMacStream, "-m", mtt.c_str()}), false);
        rs.listener = w.add_node("listener", "aaf-listener", PICK(aaf_listener_main), V({"-i", "eth0", "-d", kMacStream}), true);
    } else if (p.scen == "hello") {
        std::vector<std::string> ta, la;
        if (p.tscf) add(ta, {"-t"});
        if (p.udp) { add(ta, {"-u", "-n", "10.0.0.2:17220"}); add(la, {"-u", "-p", "17220"}); }
        else { add(ta, {"-i", "eth0", "-d", kMacStream}); add(la, {"-i", "eth0", "-d", kMacStream}); }
        w.add_node("talker", "hello-world-talker", PICK(hello_world_talker_main), ta, false);
        rs.listener = w.add_node("listener", "hello-world-listener", PICK(hello_world_listener_main), la, true);
    } else if (p.scen == "vss") {
        std::vector<std::string> ta, la;
        if (p.tscf) add(ta, {"-t"});
        if (p.udp) { add(ta, {"-u", "10.0.0.2:17220"}); add(la, {"-u", "-p", "17220"}); }
        else { add(ta, {"eth0", kMacStream}); add(la, {"eth0", kMacStream}); }
        w.add_node("talker", "acf-vss-talker", PICK(acf_vss_talker_main), ta, false);
        rs.listener = w.add_node("listener", "acf-vss-listener", PICK(acf_vss_listener_main), la, true);
    } else if (p.scen == "crfL") {
        w.add_node("talker", "crf-talker", PICK(crf_talker_main), V({"-i", "eth0", "-d", kMacCrf, "-m", mtt.c_str()}), false);
        w.add_node("aafsrc", "crf-listener", crf_listener_b_main,
                   V({"-i", "eth0", "-c", kMacCrf, "-a", kMacStream, "-o", "talker", "-m", mtt.c_str()}), false);
        rs.listener = w.add_node("listener", "crf-listener", PICK(crf_listener_main),
                                 V({"-i", "eth0", "-c", kMacCrf, "-a", kMacStream, "-o", "listener"}), true);
    } else if (p.scen == "crfT") {
        w.add_node("talker", "crf-talker", PICK(crf_talker_main), V({"-i", "eth0", "-d", kMacCrf, "-m", mtt.c_str()}), false);
        rs.listener = w.add_node("listener", "crf-listener", PICK(crf_listener_main),
                                 V({"-i", "eth0", "-c", kMacCrf, "-a", kMacStream, "-o", "talker", "-m", mtt.c_str()}), true);
    } else {
        harness_error("unknown scenario " + p.scen);
    }
    for (size_t i = 0; i < w.nodes.size() && i < 4; i++) w.nodes[i].clock_offset = (p.epoch == 0 && p.skew[i] < 0) ? 0 : p.skew[i];
    for (auto &n : w.nodes) n.stdin_eof_at_end = p.stdin_eof;
}

static void fill_style(std::vector<uint8_t> &d, size_t from, const std::string &style, uint64_t seed) {
    sim::Rng r(seed);
    for (size_t i = from; i < d.size(); i++) {
        if (style == "zero") d[i] = 0;
        else if (style == "ff") d[i] = 0xff;
        else if (style == "nz") d[i] = (uint8_t)(1 + r.below(255));
        else if (style == "ascii") d[i] = (uint8_t)(0x21 + r.below(0x5e));
        else d[i] = (uint8_t)r.next();
    }
}

static void apply_transport(RunState &rs, int node, Frame &f) {
    World &w = *rs.w;
    Plan &p = rs.plan;
    struct Copy { Frame f; uint64_t delay; };
    uint64_t base = w.rng_net.range(w.lat_lo, w.lat_hi);
    std::vector<Copy> copies;
    bool dropped = false;
    Frame cur = f;
    if (p.ethpad && !cur.udp && cur.data.size() < 46) {  // Ethernet minimum payload: the NIC pads, a packet socket delivers the padding
        cur.data.resize(46, 0);
        f.data = cur.data;
        w.count("fault.ethpad");
    }
    uint64_t extra_delay = 0;
    std::vector<uint64_t> dup_delays;
    for (auto &m : p.mut) {
        if (m.node != node || m.dg != f.src_index) continue;
        // faults stop when the quiet phase begins: a datagram that a talker held back until then travels unharmed
        if (rs.quiet && p.prop != "C19") { w.count("fault.not_applied_in_quiet_phase"); continue; }
        if (m.kind == "drop") { dropped = true; w.count("fault.drop"); }
        else if (m.kind == "dup") { dup_delays.push_back(m.a); w.count("fault.dup"); }
        else if (m.kind == "stale") { dup_delays.push_back(m.a); w.count("fault.stale"); }
        else if (m.kind == "delay") { extra_delay += m.a; w.count("fault.delay"); }
        else if (m.kind == "trunc") { if (m.a < cur.data.size()) cur.data.resize(m.a); cur.damaged = true; w.count("fault.trunc"); }
        else if (m.kind == "extend") {
            size_t o = cur.data.size();
            cur.data.resize(std::min<size_t>(o + m.a, 9000));
            fill_style(cur.data, o, m.style, m.b);
            cur.damaged = true;
            w.count("fault.extend");
        } else if (m.kind == "flip") {
            if (m.a / 8 < cur.data.size()) cur.data[m.a / 8] ^= (uint8_t)(0x80 >> (m.a % 8));
            cur.damaged = true;
            w.count("fault.flip");
        } else if (m.kind == "add") {  // field += delta (two's complement), e.g. a timestamp moved by whole media clock periods
            uint64_t cur_v = wire::get_bits(cur.data, m.a, (unsigned)m.b);
            wire::set_bits(cur.data, m.a, (unsigned)m.b, cur_v + m.c);
            cur.damaged = true;
            w.count("fault.field_add");
        } else if (m.kind == "set") {
            wire::set_bits(cur.data, m.a, (unsigned)m.b, m.c);
            cur.damaged = true;
            w.count("fault.field");
        }
    }
    if (!dropped) copies.push_back(Copy{cur, base + extra_delay});
    for (uint64_t d : dup_delays) copies.push_back(Copy{cur, base + d});
    // faults strike only what reaches the listener under test; other receivers (helper traffic sources) see the original
    bool faulty = dropped || cur.damaged || !dup_delays.empty() || extra_delay;
    if (faulty && w.nodes.size() > 2) w.deliver(f, base, -1, rs.listener);
    for (auto &c : copies) {
        // like fresh sends, delayed or duplicated copies no longer arrive in the drain interval before the end of the run
        if (w.now + c.delay + p.drain > w.t_origin + p.tend) { w.count("fault.copy_beyond_end_not_delivered"); continue; }
        if (c.f.damaged) w.log("damaged", c.f.id, c.f.data.size(), c.f.data.data(), c.f.data.size());
        if (faulty && w.nodes.size() > 2) w.deliver(c.f, c.delay, rs.listener, -1);
        else w.deliver(c.f, c.delay);
    }
}

// number of observable effects a well-formed talker datagram must cause in its listener
static size_t expected_effects(RunState &rs, const Frame &f) {
    const std::string &s = rs.plan.scen;
    if (s == "can") { auto it = rs.cargo.find(f.id); return it == rs.cargo.end() ? 0 : it->second.size(); }
    if (s == "hello" || s == "vss" || s == "cvf" || s == "aaf") return 1;
    return 0;
}

void exec_plan(const std::string &text, bool verbose) {
    static RunState rs;
    g_rs = &rs;
    rs.plan = parse_plan(text);
    rs.tscf_now = rs.plan.tscf;
    Plan &p = rs.plan;
    World *wp = new World(p.rseed);
    World &w = *wp;
    rs.w = wp;
    w.verbose = verbose;
    w.sched = p.sched;
    w.lat_lo = p.lat_lo; w.lat_hi = p.lat_hi; w.cost_lo = p.cost_lo; w.cost_hi = p.cost_hi;
    w.rxq_cap = p.qcap;
    w.can_read0_p = p.read0;
    w.env_on = p.env_on;
    w.env_seed = p.rseed;
    w.stdout_fault_p = p.outfault;
    w.tty = p.tty;
    w.can_txq_cap = p.cantxq;
    w.clock_gran = p.clkgran ? p.clkgran : 1;
    // (epoch 0: a machine without a real-time clock, started a fraction of a second ago)
    w.t_origin = p.epoch ? p.epoch * 1000000000ULL + (p.rseed % 1000000007ULL) * 1000ULL : 1000000ULL + (p.rseed % 600000ULL) * 1000ULL;
    w.now = w.t_origin;
    if (sim::g_shm) snprintf(sim::g_shm->context, sizeof sim::g_shm->context, "%s|%s|%s", p.prop.c_str(), p.scen.c_str(), p.mode_str().c_str());

    // stdout/stderr of the programs under simulation
    fflush(nullptr);
    g_real_stdout = stdout;
    cookie_io_functions_t outf = {nullptr, cookie_out_write, nullptr, nullptr};
    cookie_io_functions_t errf = {nullptr, cookie_err_write, nullptr, nullptr};
    FILE *so = fopencookie(nullptr, "w", outf);
    FILE *se = fopencookie(nullptr, "w", errf);
    setvbuf(so, nullptr, _IOLBF, 0);
    setvbuf(se, nullptr, _IONBF, 0);
    set_log_file(g_real_stdout);  // the event log stays on the real stdout
    stdout = so;
    stderr = se;

    w.count(p.o0 == 2 ? "cfg.copy_gcc_O2" : p.o0 ? "cfg.copy_clang_O0_unsigned_char" : "cfg.copy_clang_O1");
    if (p.env_on) w.count("cfg.environment_variables_read_as_set");
    if (p.tty) w.count("cfg.standard_streams_are_a_terminal");
    if (p.epoch == 0) w.count("cfg.date_1970_no_real_time_clock");
    else if (p.epoch != 1700000000ULL) w.count(p.epoch < 2147483648ULL ? "cfg.date_2038_rollover_inside_the_run" : p.epoch < 4294967000ULL ? "cfg.date_after_2038" : "cfg.date_around_2106");
    if (p.stackfill != 0xA5) { sim::Tasks::refill_stacks((uint8_t)p.stackfill); w.count("cfg.stack_fill_other_than_A5"); }
    setup_nodes(rs);
    if (p.lstack >= 64 && p.lstack * 1024 < sim::Tasks::kStackSize && rs.listener >= 0) {
        // the listener runs on a smaller stack (real deployments configure 64-256 KiB for such daemons): the unused lower part becomes inaccessible
        sim::Task *lt = w.tasks.get(w.nodes[rs.listener].task);
        size_t cut = lt->stack_size - p.lstack * 1024;
        if (mprotect(lt->stack, cut, PROT_NONE) == 0) { lt->stack += cut; lt->stack_size -= cut; w.count("cfg.small_listener_stack"); }
    }

    const bool c19 = p.prop == "C19";
    w.on_call_budget = [c19](Node &n) {
        std::string fn = sim::g_symtab.func(n.last_pc);
        n.in_handler = false;
        if (c19) violation(strf("crash:step-budget:%s", fn.c_str()), strf("%s made more than %llu system calls handling one datagram", n.name.c_str(), (unsigned long long)g_rs->w->call_budget));
        violation(strf("step-budget:%s", fn.c_str()), strf("%s made more than %llu system calls after receiving frame#%llu without returning to recv/poll",
                                                           n.name.c_str(), (unsigned long long)g_rs->w->call_budget, (unsigned long long)n.handler_frame));
    };
    w.hooks.on_fd_growth = [c19](World &w, int node, int now_open, int first_open) {
        Node &n = w.nodes[node];
        n.in_handler = false;
        violation(strf("%sfd-growth:%s", c19 ? "crash:" : "", n.prog.c_str()),
                  strf("%s holds %d open descriptors when it waits for the next datagram; it held %d when it waited for the first one (%llu datagrams received): "
                       "descriptors are opened per datagram and never closed, the process fails when the table is full",
                       n.name.c_str(), now_open, first_open, (unsigned long long)g_rs->recv_total));
    };
    w.hooks.on_stack_growth = [c19](World &w, int node, uint64_t bytes, unsigned times) {
        Node &n = w.nodes[node];
        n.in_handler = false;
        violation(strf("%sstack-growth:%s", c19 ? "crash:" : "", n.prog.c_str()),
                  strf("%s is %llu bytes deeper in its stack when it waits for the next datagram than when it waited for the first one, after growing %u times (%llu datagrams received): "
                       "stack is not released between datagrams, the process dies when it runs out",
                       n.name.c_str(), (unsigned long long)bytes, times, (unsigned long long)g_rs->recv_total));
    };
    // ---- hooks
    w.hooks.on_can_read = [](World &, int node, const CanRec &c) {
        // (an error message frame read by the talker is a report about the bus, not a frame of the bus: it carries no cargo)
        if (node == g_rs->talker && !(c.can_id & CAN_ERR_FLAG)) g_rs->pending_cargo.push_back(c);
    };
    w.hooks.on_send = [c19](World &w, int node, Frame &f) {
        RunState &rs = *g_rs;
        if ((rs.plan.scen == "tunnel" || rs.plan.scen == "can") && node == rs.talker) {
            rs.cargo[f.id] = rs.pending_cargo;
            if (c19) {
                std::string e = check_framing(rs.plan, f.data, rs.pending_cargo.size());
                if (!e.empty()) violation("framing:" + e.substr(0, e.find(':')), strf("datagram #%d (%zu bytes, %zu frames): %s", f.src_index, f.data.size(), rs.pending_cargo.size(), e.c_str()));
            }
            if (rs.pending_cargo.size() > 1) w.count("probe.multi_frame_packet");
            rs.pending_cargo.clear();
        }
        // experiment ends: stop feeding the listener shortly before t_end so that it can drain
        if (w.now + rs.plan.drain > w.t_origin + rs.plan.tend) return;
        bool probe = rs.quiet;
        apply_transport(rs, node, f);
        if (probe && !c19 && node != rs.listener) rs.probe_expect[f.id] = expected_effects(rs, f);
    };
    w.hooks.on_recv = [c19](World &w, int node, int, const Frame &f, size_t) {
        RunState &rs = *g_rs;
        if (node != rs.listener) return;
        rs.listener_started = true;
        rs.recv_total++;
        if (w.now + 4300000000ULL > w.t_origin + rs.plan.tend) rs.late_recv++;
        if (f.damaged || f.src_node < 0) { rs.damaged_recv++; w.count("probe.hostile_datagram_received"); }
        if (c19 || rs.plan.scen == "can") {
            auto it = rs.cargo.find(f.id);
            if (it != rs.cargo.end() && !f.damaged) {
                for (auto &c : it->second) { rs.expected.push_back(c); rs.expected_src.push_back(f.id); }
                if (it->second.size() > 1) w.count("probe.listener_parsed_multi_acf");
            }
        }
        auto pe = rs.probe_expect.find(f.id);
        if (pe != rs.probe_expect.end() && !f.damaged) { rs.probes_recv++; rs.probe_cargo += pe->second; w.count("probe.quiet_probe_received"); }
        if (rs.settled) { if (pe != rs.probe_expect.end() && !f.damaged) rs.settled_cargo += pe->second; else rs.settled_taint = true; }
    };
    w.hooks.on_can_write = [](World &, int node, int, const CanRec &) {
        RunState &rs = *g_rs;
        if (node == rs.listener) rs.effects_total++;
        if (node == rs.listener && rs.quiet) rs.effects_after_quiet++;
        if (node == rs.listener && rs.settled) rs.settled_effects++;
    };
    w.hooks.on_stdout_fd = [](World &, int node, const uint8_t *, size_t) {
        RunState &rs = *g_rs;
        if (node == rs.listener) rs.effects_total++;
        if (node == rs.listener && rs.quiet) rs.effects_after_quiet++;
    };
    w.hooks.on_stdout_line = [](World &, int node, const std::string &) {
        RunState &rs = *g_rs;
        if (node == rs.listener) rs.effects_total++;
        if (node == rs.listener && rs.quiet) rs.effects_after_quiet++;
    };
    w.hooks.on_handler_done = [](World &w, int node) {
        RunState &rs = *g_rs;
        if (node == rs.listener) { rs.handlers_done++; rs.listener_started = true; if (rs.quiet) rs.settled = true; }
        (void)w;
    };
    w.hooks.on_close_with_queue = [c19](World &w, int node, size_t valid) {
        RunState &rs = *g_rs;
        if (c19 || node != rs.listener) return;
        if (w.nodes[node].stdout_fault_seen) return;  // (on its way out after an injected output error: see on_task_exit)
        // a listener that closes its socket while it runs (to open a new one, say) throws away what had already arrived: the next
        // datagram - a valid one, already delivered - is never processed
        violation("probe-lost:discarded-with-socket", strf("the listener closed its socket while %zu undamaged datagram(s) of its talker were waiting in the receive queue: they are never processed", valid));
        (void)w;
    };
    w.hooks.on_task_exit = [c19](World &w, int node, int code, bool via_exit) {
        RunState &rs = *g_rs;
        Node &n = w.nodes[node];
        if (c19) violation(strf("crash:exit:%s", n.prog.c_str()), strf("%s left service (%s, code %d) while carrying well-formed frames", n.name.c_str(), via_exit ? "exit()" : "return from main", code));
        if (node == rs.listener && n.stdout_fault_seen && !c19) {
            // An I/O error on its output is something a program may answer by terminating (the AAF and CVF listeners do): after an injected
            // output error the run only asks that nothing worse than that happened. The run ends here, no end-of-run oracle applies.
            w.count("ok.listener_terminated_after_injected_stdout_error");
            rs.gave_up = true;
            w.stop = true;
            return;
        }
        if (node == rs.listener) {
            if (!rs.listener_started && rs.recv_total == 0) harness_error(strf("listener %s terminated during start-up (code %d)", n.prog.c_str(), code));
            violation("exit", strf("%s terminated (%s, code %d) after receiving frame#%llu; %llu datagrams received so far", n.prog.c_str(),
                                   via_exit ? "exit()" : "return from main", code, (unsigned long long)n.handler_frame, (unsigned long long)rs.recv_total));
        }
        if (!rs.plan.stdin_eof) harness_error(strf("traffic source %s terminated (code %d)", n.prog.c_str(), code));
    };

    // ---- workload and faults
    for (auto &c : p.can) {
        CanRec rec = c.c;
        w.at(w.t_origin + c.t, [&w, rec] { w.inject_can(0, rec); });
    }
    for (auto &s : p.in) w.feed_stdin(s.node, w.t_origin + s.t, s.bytes);
    // soak workload: chunk k of a repetition is produced when its time comes (a million chunks are not kept in memory)
    static std::function<void(size_t, uint64_t)> feed_rep;
    feed_rep = [&w](size_t ri, uint64_t k) {
        const InRep &ir = g_rs->plan.inrep[ri];
        if (k >= ir.n) return;
        sim::Rng cr(sim::mix64(ir.seed, k));
        std::vector<uint8_t> bytes;
        if (ir.kind == "nal") {  // start code + 1..60 payload bytes without zeros
            bytes = {0, 0, 1};
            size_t n = 1 + cr.below(60);
            for (size_t i = 0; i < n; i++) bytes.push_back((uint8_t)(1 + cr.below(255)));
        } else {                 // pcm: one to four 4-byte sample groups
            size_t n = 4 * (1 + cr.below(4));
            for (size_t i = 0; i < n; i++) bytes.push_back((uint8_t)cr.next());
        }
        w.feed_stdin(ir.node, w.now, std::move(bytes));
        w.at(w.t_origin + ir.t + (k + 1) * ir.dt, [ri, k] { feed_rep(ri, k + 1); });
    };
    for (size_t ri = 0; ri < p.inrep.size(); ri++) w.at(w.t_origin + p.inrep[ri].t, [ri] { feed_rep(ri, 0); });
    // flood: copy k of a datagram is built and injected when its time comes
    static std::function<void(size_t, uint64_t)> flood_rep;
    flood_rep = [&w](size_t ri, uint64_t k) {
        const InjRep &ir = g_rs->plan.injrep[ri];
        if (k >= ir.n || g_rs->quiet) return;
        Frame f;
        f.data = ir.data;
        for (auto &st : ir.steps)
            if (st.w && st.bit + st.w <= f.data.size() * 8) wire::set_bits(f.data, st.bit, st.w, wire::get_bits(f.data, st.bit, st.w) + k * st.delta);
        f.udp = g_rs->plan.udp;
        f.src_node = -1;
        f.damaged = true;
        f.id = w.next_frame_id++;
        w.count("fault.flood_copy");
        w.inject_to_node(g_rs->listener, f);
        w.at(w.t_origin + ir.t + (k + 1) * ir.dt, [ri, k] { flood_rep(ri, k + 1); });
    };
    for (size_t ri = 0; ri < p.injrep.size(); ri++) w.at(w.t_origin + p.injrep[ri].t, [ri] { flood_rep(ri, 0); });
    if (p.soak) {
        // early window [5 %, 10 %] and two late windows [88 %, 93 %], [94 %, 99 %] of the run
        static const double marks[6] = {0.05, 0.10, 0.88, 0.93, 0.94, 0.99};
        for (int mi = 0; mi < 6; mi++)
            w.at(w.t_origin + (uint64_t)((double)(p.tend - p.drain) * marks[mi]), [mi] { g_rs->win_eff[mi] = g_rs->effects_total; g_rs->win_recv[mi] = g_rs->recv_total; });
    }
    for (auto &i : p.inj) {
        Frame f;
        f.data = i.data;
        f.udp = p.udp;
        f.src_node = -1;
        f.damaged = true;
        w.at(w.t_origin + i.t, [&w, f]() mutable {
            f.id = w.next_frame_id++;
            w.count("fault.synth");
            w.inject_to_node(g_rs->listener, f);
        });
    }
    for (auto &cj : p.clkjump) {
        Plan::ClkJump j = cj;
        w.at(w.t_origin + j.t, [&w, j] {
            if (j.node < (int)w.nodes.size()) {
                w.nodes[j.node].clock_offset += j.delta;
                w.count("fault.clock_step");
                w.log("clock-step", (uint64_t)j.node, (uint64_t)j.delta);
            }
        });
    }
    for (auto &s : p.stall) {
        Stall st = s;
        w.at(w.t_origin + s.t, [&w, st] {
            if (st.node < (int)w.nodes.size()) {
                w.nodes[st.node].stall_until = w.now + st.dur;
                w.count("fault.stall");
                w.log("stall", (uint64_t)st.node, st.dur);
            }
        });
    }
    // Crash and restart of the talker or of the listener process (tunnel). The old process vanishes with what it held: frames read but
    // not sent and frames queued on its CAN socket (talker); datagrams queued on its socket and the unwritten rest of the datagram in
    // hand (listener). The new process starts from a fresh process image - the other build variant's copy of the program, whose
    // file-scope statics have never been touched - with the same command line; hence at most one restart per program and run.
    if (p.scen == "tunnel")
        for (auto &rst : p.restart) {
            bool lis = rst.listener, flip = rst.flip && !rst.listener;
            w.at(w.t_origin + rst.t, [&w, lis, flip] {
                RunState &rs = *g_rs;
                if (lis ? rs.listener_restarts >= 1 : rs.talker_restarts >= 1) return;
                int old = lis ? rs.listener : rs.talker;
                sim::Task *ot = w.tasks.get(w.nodes[old].task);
                if (ot->state == sim::Task::DONE) return;
                ot->state = sim::Task::DONE;
                w.nodes[old].waiting = true;
                w.nodes[old].in_handler = false;
                for (auto &e : w.fds) if (e.kind != FdEnt::FREE && e.node == old) e = FdEnt();
                bool use_o0 = !rs.plan.o0;
                int64_t off = w.nodes[old].clock_offset;
                int nn;
                if (lis) {
                    // what the old listener had received but not yet written is lost with it: the frames it wrote are a prefix of what it received
                    size_t written = w.bus_log[1].size();
                    if (rs.expected.size() > written) { rs.expected.resize(written); rs.expected_src.resize(written); }
                    nn = rs.listener = w.add_node("listener2", "acf-can-listener", use_o0 ? O0_acf_can_listener_main : acf_can_listener_main, rs.listener_argv, true);
                    rs.listener_restarts++;
                    w.count("fault.listener_restart");
                } else {
                    rs.pending_cargo.clear();
                    if (flip) {  // the same listener now meets the other control format: the formats may follow each other in any sequence
                        auto it = std::find(rs.talker_argv.begin(), rs.talker_argv.end(), std::string("-t"));
                        if (it != rs.talker_argv.end()) rs.talker_argv.erase(it); else rs.talker_argv.insert(rs.talker_argv.begin(), "-t");
                        rs.tscf_now = !rs.tscf_now;
                        w.count("fault.talker_restart_with_other_control_format");
                    }
                    nn = rs.talker = w.add_node("talker2", "acf-can-talker", use_o0 ? O0_acf_can_talker_main : acf_can_talker_main, rs.talker_argv, false);
                    rs.talker_restarts++;
                    w.count("fault.talker_restart");
                }
                w.nodes[nn].clock_offset = off;
                rs.restarts++;
                w.log("restart", (uint64_t)old, (uint64_t)nn);
            });
        }
    for (uint64_t lt : p.linkflap)
        w.at(w.t_origin + lt, [&w] {
            // carrier lost and regained: nothing that is queued is lost in this model, but every packet socket on the interface has an error to report
            for (auto &e : w.fds) if (e.kind == FdEnt::PACKET && e.bound) e.pending_err = ENETDOWN;
            for (size_t i = 0; i < w.fds.size(); i++) if (w.fds[i].kind == FdEnt::PACKET && w.fds[i].bound) w.wake_waiters(kFdBase + (int)i);
            w.count("fault.link_flap");
            w.log("link-flap");
        });
    if (p.quiet_t) w.at(w.t_origin + p.quiet_t, [&w] {
        g_rs->quiet = true;
        w.stdout_fault_p = 0;
        w.rxq_cap = 4096;
        w.can_txq_cap = 0;
        for (auto &n : w.nodes) n.stall_until = 0;  // faults stop here
        w.log("phase-quiet");
    });

    w.run(w.t_origin + p.tend, p.soak ? 4000000000ULL : 4000000);
    if (!c19 && p.scen != "crfT" && rs.listener >= 0) {
        // A handler that happens to be in progress at the cut-off instant (its own presentation timer fired a few microseconds
        // earlier) is allowed to finish: the cut-off is the simulator's, not the listener's. Bounded by the step/call budgets.
        for (int k = 0; k < 200; k++) {
            sim::Task *lt = w.tasks.get(w.nodes[rs.listener].task);
            if (!lt || lt->state != sim::Task::RUNNABLE) break;
            w.count("ev.grace_slice_at_end");
            w.run(w.now + 50000, 8000000);
        }
    }

    // ---- final oracle
    sim::RunResult r;
    if (rs.gave_up) {
        r = base_result(w);
        r.nontrivial = rs.recv_total > 0;
    } else if (c19) {
        c19_final_check(rs);
        // the talker end: every frame the bus delivered has been read, and all but an incomplete last batch has been sent
        if (rs.pending_cargo.size() >= (size_t)std::max(1, p.count))
            violation("frame-count:unsent", strf("the talker read %zu frames that it never sent (it sends after every %d frames); %llu datagrams sent",
                                                 rs.pending_cargo.size(), p.count, (unsigned long long)w.nodes[rs.talker].sent));
        // without any loss injected, what the talker sends arrives: a listener that never received a single datagram was never addressed
        {
            bool lossy = !p.mut.empty() || !p.stall.empty() || rs.listener_restarts || p.qcap < 64;
            if (!lossy && rs.recv_total == 0 && w.nodes[rs.talker].sent >= 3)
                violation("frame-count:nothing-received", strf("the talker sent %llu datagrams, the listener received none although no loss, delay or stall was injected: "
                                                               "they were not addressed to where the listener listens", (unsigned long long)w.nodes[rs.talker].sent));
        }
        if (w.counters.count("ev.dropped_by_reduced_receive_buffer"))
            violation("frame-count:receive-buffer", strf("%llu datagrams were dropped at a socket whose receive buffer the program itself had reduced (SO_RCVBUF) although the system's default buffer "
                                                         "would have held them", (unsigned long long)w.counters["ev.dropped_by_reduced_receive_buffer"]));
        if (w.counters.count("ev.can_frame_rejected_by_socket_filter"))
            violation("frame-count:filtered", strf("%llu data frames of the bus never reached the talker: its CAN socket carries a receive filter (CAN_RAW_FILTER) that does not match them",
                                                   (unsigned long long)w.counters["ev.can_frame_rejected_by_socket_filter"]));
        if (p.fd && w.counters.count("ev.can_fd_frame_not_accepted"))
            violation("frame-count:not-accepted", strf("%llu FD frames were offered to a talker started with --fd whose CAN socket does not accept FD frames (CAN_RAW_FD_FRAMES is not enabled on it)",
                                                       (unsigned long long)w.counters["ev.can_fd_frame_not_accepted"]));
        for (auto &e : w.fds)
            if (e.kind == FdEnt::CAN && e.node == rs.talker && !e.canq.empty())
                violation("frame-count:unread", strf("%zu frames are still waiting on the talker's CAN socket at the end of the run", e.canq.size()));
        r = base_result(w);
        r.nontrivial = !rs.expected.empty();
    } else {
        Node &ln = w.nodes[rs.listener];
        sim::Task *lt = w.tasks.get(ln.task);
        // (crf-listener in talker mode runs a periodic 125 us transmit timer and is legitimately busy at any instant)
        if (lt->state != sim::Task::BLOCKED && p.scen != "crfT")
            violation("probe-lost:not-idle", strf("listener is not waiting for input at the end of the run (state %d)", (int)lt->state));
        // a listener blocked on descriptors that can never become ready again (e.g. read() of a disarmed timerfd) is stuck for good
        if (lt->state == sim::Task::BLOCKED && ln.waiting && !ln.wait_fds.empty()) {
            bool can_wake = ln.wake_time != 0;
            for (int wfd : ln.wait_fds) {
                FdEnt *e = w.fd(wfd);
                if (wfd < 0 || !e) { can_wake = true; continue; }
                if (e->kind == FdEnt::TIMER) { if (e->armed) can_wake = true; }
                else can_wake = true;  // sockets can always receive
            }
            if (!can_wake)
                violation("probe-lost:stuck", strf("listener is blocked for ever: it waits only for a timer that is not armed (%zu descriptor(s)); %llu datagrams received",
                                                   ln.wait_fds.size(), (unsigned long long)rs.recv_total));
        }
        // (its ETH_P_ALL socket also taps its own 8 kHz transmissions, so its queue is never reliably empty either)
        for (auto &e : w.fds)
            if (e.node == rs.listener && (e.kind == FdEnt::PACKET || e.kind == FdEnt::UDP) && !e.rxq.empty() && p.scen != "crfT")
                violation("probe-lost:unread", strf("%zu datagrams still unread at the end of the run", e.rxq.size()));
        {
            Node &hn = w.nodes[rs.listener];
            w.counters["listener.heap_allocs"] = hn.heap_allocs;
            if (hn.heap_first >= 0 && hn.heap_live > hn.heap_first + (int64_t)rs.late_recv) w.counters["listener.heap_blocks_live_at_end"] = (uint64_t)(hn.heap_live - hn.heap_first);
            // CVF/AAF listeners queue one block per accepted datagram and release it when it is presented; every presentation time lies
            // within 4.3 s (32-bit nanosecond timestamps) of its arrival, so at most what arrived in the last 4.3 s of the run may be left
            if ((p.scen == "cvf" || p.scen == "aaf") && !p.soak && hn.heap_first >= 0 && hn.heap_live > hn.heap_first + (int64_t)rs.late_recv)
                violation(strf("heap-growth:%s", hn.prog.c_str()),
                          strf("%lld heap blocks (%lld bytes) that the listener allocated while handling datagrams are still allocated after everything queued has been presented "
                               "(%llu allocations, %llu datagrams received): memory is lost per datagram, the process fails when it runs out",
                               (long long)(hn.heap_live - hn.heap_first), (long long)hn.heap_live_bytes, (unsigned long long)hn.heap_allocs, (unsigned long long)rs.recv_total));
        }
        {
            // The CAN, hello-world and VSS listeners keep nothing between datagrams (no allocation at all on the pinned tree): blocks
            // that pile up with the number of datagrams are memory lost, or state growing, per datagram
            Node &hn = w.nodes[rs.listener];
            int64_t left = hn.heap_first >= 0 ? hn.heap_live - hn.heap_first : 0;
            // ... or one block that grows with them (bytes per datagram, whatever the number of blocks)
            int64_t left_bytes = hn.heap_first >= 0 ? hn.heap_live_bytes - hn.heap_first_bytes : 0;
            if ((p.scen == "can" || p.scen == "hello" || p.scen == "vss") && !p.soak && left_bytes >= 16384 && (uint64_t)left_bytes >= 32 * rs.recv_total)
                violation(strf("heap-growth:%s", hn.prog.c_str()),
                          strf("%lld bytes allocated while handling %llu datagrams are still allocated at the end of the run (%lld blocks): memory use grows with the number of "
                               "datagrams received", (long long)left_bytes, (unsigned long long)rs.recv_total, (long long)left));
            if ((p.scen == "can" || p.scen == "hello" || p.scen == "vss") && !p.soak && left >= 16 && (uint64_t)left * 4 >= rs.recv_total)
                violation(strf("heap-growth:%s", hn.prog.c_str()),
                          strf("%lld heap blocks (%lld bytes) allocated while handling %llu datagrams are still allocated at the end of the run: memory use grows with the number of "
                               "datagrams received", (long long)left, (long long)hn.heap_live_bytes, (unsigned long long)rs.recv_total));
        }
        if (p.soak) {
            // the same kind of valid traffic that produced output early in the run must still produce output late in the run
            uint64_t ea = rs.win_eff[1] - rs.win_eff[0], ra = rs.win_recv[1] - rs.win_recv[0];
            w.counters["soak.datagrams"] = rs.recv_total;
            for (int k = 2; k < 6; k += 2) {
                uint64_t eb = rs.win_eff[k + 1] - rs.win_eff[k], rb = rs.win_recv[k + 1] - rs.win_recv[k];
                // outputs per datagram fell to less than a quarter of what the same traffic yielded early on
                if (ea >= 1000 && ra >= 1000 && rb >= ra / 2 && (double)eb / (double)rb < 0.25 * (double)ea / (double)ra)
                    violation("probe-lost:deaf-after-long-service",
                              strf("valid traffic only: %llu datagrams in the early window produced %llu outputs, %llu datagrams in a late window produced %llu (%llu datagrams received in total)",
                                   (unsigned long long)ra, (unsigned long long)ea, (unsigned long long)rb, (unsigned long long)eb, (unsigned long long)rs.recv_total));
            }
        }
        if (p.scen == "can" && !rs.settled_taint && rs.settled_effects > rs.settled_cargo)
            violation("probe-lost:spurious-output", strf("after the faults stopped and the listener had been idle, it received well-formed datagrams carrying %llu CAN frames and wrote %llu: "
                                                         "it writes frames that no datagram carried - what it does with a datagram now depends on what it received before",
                                                         (unsigned long long)rs.settled_cargo, (unsigned long long)rs.settled_effects));
        if (rs.effects_after_quiet < rs.probe_cargo) w.counters["probe_effect_deficit"] = rs.probe_cargo - rs.effects_after_quiet;
        if (rs.effects_after_quiet < rs.probe_cargo)
            violation("probe-lost:effect", strf("after the faults stopped the listener received %llu well-formed datagrams that should have produced %llu outputs, but produced %llu",
                                                (unsigned long long)rs.probes_recv, (unsigned long long)rs.probe_cargo, (unsigned long long)rs.effects_after_quiet));
        r = base_result(w);
        r.nontrivial = rs.damaged_recv > 0 && rs.handlers_done > 0;
    }
    r.counters["recv_total"] = rs.recv_total;
    r.counters["can_frames_expected"] = rs.expected.size();
    r.counters["listener_handlers_done"] = rs.handlers_done;
    r.counters["probes_received"] = rs.probes_recv;
    r.counters["sched_points"] = w.steps;
    r.counters[std::string("scen.") + p.scen + "/" + p.mode_str()] = 1;
    sim::finish_run(r);
}

// ---------------------------------------------------------------- crash classification (parent side)
// A missing probe effect only counts if the fault-free twin of the same plan (same workload, schedule seed and
// configuration, every fault operation removed) does produce it: a listener that is merely strict about what it
// accepts from its own talker is not "unable to process the next datagram".
void confirm_violation(sim::Engine &e, const std::string &plan, sim::RunResult &r) {
    const std::string tail = ":probe-lost:effect";
    if (r.sig.size() < tail.size() || r.sig.compare(r.sig.size() - tail.size(), tail.size(), tail) != 0) return;
    std::string twin;
    for (auto &l : sim::split_lines(plan)) {
        if (l.compare(0, 3, "mut") == 0 || l.compare(0, 3, "inj") == 0 || l.compare(0, 5, "stall") == 0) continue;
        twin += l;
        twin += '\n';
    }
    sim::RunResult t = sim::run_plan_in_child(e, twin, false);
    uint64_t d1 = r.counters.count("probe_effect_deficit") ? r.counters["probe_effect_deficit"] : 0;
    uint64_t d2 = t.counters.count("probe_effect_deficit") ? t.counters["probe_effect_deficit"] : 0;
    if (t.status == 1 && t.sig == r.sig && d2 >= d1) {
        r.status = 0;
        r.sig.clear();
        r.detail.clear();
        r.counters["probe.effect_deficit_also_without_faults"] = 1;
    }
}

sim::RunResult classify_crash(const sim::CrashInfo &ci) {
    sim::RunResult r;
    // context = prop|scen|mode
    std::string prop, scen, mode;
    {
        size_t a = ci.context.find('|'), b = ci.context.find('|', a + 1);
        if (a != std::string::npos && b != std::string::npos) { prop = ci.context.substr(0, a); scen = ci.context.substr(a + 1, b - a - 1); mode = ci.context.substr(b + 1); }
    }
    std::string what;
    if (ci.kind == sim::CrashInfo::ASAN) what = strf("asan:%s%s%s", ci.san_kind.c_str(), ci.access.empty() ? "" : ":", ci.access.c_str());
    else if (ci.kind == sim::CrashInfo::UBSAN) what = "ubsan:" + ci.san_kind;
    else if (ci.kind == sim::CrashInfo::SIGNAL) what = strf("signal:%d", ci.sig);
    else if (ci.kind == sim::CrashInfo::TIMEOUT) { r.status = 2; r.sig = "harness"; r.detail = "run exceeded wall-clock timeout; task=" + ci.cur_task; return r; }
    else { r.status = 2; r.sig = "harness"; r.detail = strf("child exit code %d: ", ci.exit_code) + ci.raw.substr(0, 400); return r; }
    std::string fn = ci.repo_func.empty() ? "?" : ci.repo_func;
    bool in_repo = !ci.repo_func.empty() && !ci.cur_task.empty();
    if (!in_repo) {
        r.status = 2;
        r.sig = "harness";
        r.detail = strf("fault outside /repo code (%s, top=%s, task=%s): ", what.c_str(), ci.top_func.c_str(), ci.cur_task.c_str()) + ci.raw.substr(0, 600);
        return r;
    }
    r.status = 1;
    r.nontrivial = true;
    if (prop == "C19") {
        r.sig = strf("tunnel/%s:crash:%s:%s", mode.find("fd") != std::string::npos ? "fd" : "classic", what.c_str(), fn.c_str());
        r.detail = strf("[%s %s] %s in %s() of task %s while carrying well-formed CAN frames (%s)", scen.c_str(), mode.c_str(), what.c_str(), fn.c_str(),
                        ci.cur_task.c_str(), ci.in_hand.c_str());
    } else {
        if (ci.cur_task != "listener") {
            r.status = 2;
            r.sig = "harness";
            r.detail = strf("traffic source %s crashed (%s in %s)", ci.cur_task.c_str(), what.c_str(), fn.c_str());
            return r;
        }
        r.sig = strf("%s/%s:%s:%s", scen.c_str(), mode.c_str(), what.c_str(), fn.c_str());
        r.detail = strf("[%s %s] %s in %s() of the listener handling %s", scen.c_str(), mode.c_str(), what.c_str(), fn.c_str(),
                        ci.in_hand.empty() ? "(no datagram in hand)" : ci.in_hand.c_str());
    }
    return r;
}

}  // namespace net
