// The simulated operating system and network under the example programs ("simos"):
// file-descriptor table (packet/UDP sockets, CAN sockets, timerfds, stdin stream, stdout sink),
// discrete-event clock, transport with fault hooks, seeded scheduler over fiber tasks.
#pragma once
#include <linux/filter.h>
#include <linux/can.h>
#include <cstdint>
#include <deque>
#include <functional>
#include <map>
#include <queue>
#include <string>
#include <vector>
#include "../../sim/core.h"
#include "../../sim/driver.h"
#include "../../sim/task.h"

namespace net {

constexpr int kFdBase = 100;
constexpr int kIfEth = 2, kIfCanA = 3, kIfCanB = 4;

struct Frame {
    int src_fd = -1;  // the sending socket (for ICMP port-unreachable to connected UDP sockets)  // a datagram in flight / queued
    std::vector<uint8_t> data;
    bool udp = false;
    uint16_t proto = 0;  // ethertype (packet) or destination port (udp)
    uint8_t dmac[6] = {0};
    int src_node = -1;   // -1: injected by the adversary
    int src_index = -1;  // k-th datagram sent by src_node
    uint64_t id = 0;     // identity of the original send (duplicates share it)
    bool damaged = false;
};

struct CanRec {
    uint32_t can_id = 0;
    uint8_t len = 0, flags = 0;
    uint16_t junk = 0;  // bytes a receiver must ignore: __pad/__res0 of a classic frame, __res0/__res1 of an FD frame (a virtual CAN interface passes them through)
    uint8_t dlc8 = 0;  // classic frames of 8 bytes: raw DLC 9..15 as reported by controllers in cc-len8-dlc mode (struct can_frame.len8_dlc)
    bool fd = false;
    uint8_t data[64] = {0};
    uint64_t tag = 0;  // workload index of the injected frame
};

struct FdEnt {
    enum Kind { FREE, PACKET, UDP, CAN, TIMER } kind = FREE;
    int node = -1;
    // sockets
    uint16_t proto = 0;  // ethertype for PACKET (host order), port for UDP
    bool bound = false;
    int ifindex = 0;
    std::vector<std::vector<uint8_t>> memberships;
    std::deque<Frame> rxq;
    // can
    bool canfd_enabled = false;
    std::vector<struct sock_filter> bpf;  // SO_ATTACH_FILTER: classic BPF program run on every datagram before it is queued
    std::vector<uint8_t> cork;    // UDP: data sent with MSG_MORE waits here for the send that completes the datagram
    bool can_join_filters = false;  // CAN_RAW_JOIN_FILTERS: a frame must match every filter, not one of them
    std::string bind_dev;        // SO_BINDTODEVICE
    bool connected = false;      // UDP: connect() was called - ICMP errors for what this socket sent are reported to it
    int pending_err = 0;         // ... as the error of its next send or receive
    size_t rcvbuf_bytes = 0;   // SO_RCVBUF as the kernel keeps it (twice the value asked for, at least 2304); 0 = the system default
    bool pmtudisc_do = false;  // IP_MTU_DISCOVER = IP_PMTUDISC_DO/PROBE: datagrams above the path MTU are refused instead of fragmented
    int bus = -1;
    std::deque<CanRec> canq;
    std::vector<struct can_filter> can_filters;  // CAN_RAW_FILTER (empty = the default filter that accepts every data frame)
    bool can_filter_set = false;
    bool can_loopback = true;     // CAN_RAW_LOOPBACK: without it, frames written to a virtual CAN interface reach no other local socket
    uint32_t can_err_mask = 0;    // CAN_RAW_ERR_FILTER: classes of error message frames this socket wants (0 = none, the default)
    uint64_t rcvtimeo_ns = 0;     // SO_RCVTIMEO: a blocking read/recv gives up with EAGAIN after this long (0 = never)
    uint64_t tx_busy_until = 0;   // CAN transmit queue model (see World::can_txq_cap)
    // timer (node-local CLOCK_REALTIME ns)
    bool armed = false;
    uint64_t next_expiry = 0, interval = 0, gen = 0;
};

struct Node {
    int task = -1;
    // signals, as far as the programs can arrange them for themselves: dispositions set with sigaction()/signal(), alarm(); a pending
    // signal is delivered where the program blocks (recv, read, poll, sleep); a handler installed without SA_RESTART makes that call fail with EINTR
    struct SigAct { void (*handler)(int) = nullptr; bool ign = false, restart = false, siginfo = false; };
    SigAct sigact[32];
    uint32_t sig_pending = 0;
    uint64_t alarm_gen = 0;
    bool stdout_fault_seen = false;  // a write() to standard output failed or was cut short by the simulator
    std::string name, prog;
    int64_t clock_offset = 0;  // node CLOCK_REALTIME = world.now + clock_offset
    std::vector<std::string> argv;
    // stdin stream: chunks become available at given times
    struct Chunk { uint64_t t; std::vector<uint8_t> bytes; };
    std::deque<Chunk> stdin_chunks;
    bool stdin_eof_at_end = false;
    size_t stdin_first_min = 0;     // first read returns at least this many bytes if available
    bool stdin_read_once = false;
    uint64_t stall_until = 0;
    uint64_t sent = 0;              // datagrams sent
    bool waiting = false;           // blocked in a wrapped call
    std::vector<int> wait_fds;      // what it waits for (fds), -2 = stdin, -3 = time
    uint64_t wake_time = 0;
    uint64_t rand_state = 1;
    // step accounting for "handler in progress"
    bool is_listener = false;
    bool in_handler = false;
    uint64_t handler_steps = 0;
    uint64_t handler_calls = 0;     // wrapped calls made by the handler in progress
    uint64_t last_pc = 0;           // last instrumented edge executed (for attribution)
    uint64_t handler_frame = 0;
    std::string stdout_line;        // partial printf line
    uint64_t pct_prio = 0;
    // stack position at the listener's idle points (recv/poll/timer read): steady growth is a leak that ends in a crash
    uint64_t sp_first = 0, sp_low = 0;
    unsigned sp_deeper = 0;
    // resources held at the idle points: descriptors open, heap blocks obtained by the program's own malloc/calloc/realloc calls
    int fds_first = -1;
    int64_t heap_live = 0, heap_live_bytes = 0, heap_first = -1, heap_first_bytes = 0;
    uint64_t heap_allocs = 0;
};

struct Event {
    uint64_t t, seq;
    std::function<void()> fn;
    bool operator<(const Event &o) const { return t != o.t ? t > o.t : seq > o.seq; }
};

struct SchedCfg {
    enum Kind { RAND, PCT, RR, RTB } kind = RAND;
    double p_yield = 0.3;
    int pct_changes = 3;
    uint64_t pct_horizon = 2000;
    int quantum = 5;
};

class World;
// Scenario hooks (oracle side); all optional.
struct Hooks {
    // called when `node` sends a datagram; may damage/drop/dup via the returned deliveries
    std::function<void(World &, int node, Frame &f)> on_send;
    std::function<void(World &, int node, int fd, const Frame &f, size_t copied)> on_recv;
    std::function<void(World &, int node, int bus, const CanRec &c)> on_can_write;
    std::function<void(World &, int node, const CanRec &c)> on_can_read;
    std::function<void(World &, int node, const uint8_t *p, size_t n)> on_stdout_fd;    // write(1,...)
    std::function<void(World &, int node, const std::string &line)> on_stdout_line;     // printf lines
    std::function<void(World &, int node, int code, bool via_exit)> on_task_exit;
    std::function<void(World &, int node, size_t valid_datagrams)> on_close_with_queue;  // a socket is closed while undamaged talker datagrams wait in its queue
    std::function<void(World &, int node)> on_handler_done;
    std::function<void(World &, int node, uint64_t bytes, unsigned times)> on_stack_growth;
    std::function<void(World &, int node, int now_open, int first_open)> on_fd_growth;
};

class World {
  public:
    World(uint64_t seed);
    sim::Tasks tasks;
    std::vector<Node> nodes;
    std::vector<FdEnt> fds;
    std::priority_queue<Event> events;
    uint64_t now = 0, t_origin = 0, event_seq = 0, steps = 0;
    uint64_t cost_lo = 200, cost_hi = 3000;
    uint64_t lat_lo = 20000, lat_hi = 200000;
    size_t rxq_cap = 64, canq_cap = 256;
    uint64_t clock_gran = 1;  // CLOCK_REALTIME as seen by the programs is quantised to this many ns (coarse clock sources exist)
    // CAN transmit queue: at most this many frames wait for the bus (one leaves every can_tx_ns); a write that finds it
    // full fails with ENOBUFS, as on real controllers (txqueuelen 10). 0 = unlimited (virtual CAN).
    size_t can_txq_cap = 0;
    uint64_t can_tx_ns = 120000;
    bool tty = false;           // standard input/output/error are a terminal (isatty)
    double stdout_fault_p = 0;  // write(1, ...) fails with EAGAIN / EINTR or is cut short with this probability (a pipe whose reader falls behind)
    uint64_t env_seed = 0;   // selects the values
    bool env_on = false;     // every environment variable a program asks for reads "1" (debug switches and the like)
    double can_read0_p = 0;  // cooperative fault point: read() on a CAN socket returns 0 (the talker explicitly retries on 0)
    uint64_t step_budget = 20000000ULL;
    uint64_t call_budget = 100000ULL;
    std::function<void(Node &)> on_call_budget;
    SchedCfg sched;
    sim::Rng rng_sched, rng_cost, rng_net;
    sim::Digest digest, sched_digest;
    bool verbose = false;
    Hooks hooks;
    std::map<std::string, uint64_t> counters;
    std::vector<CanRec> bus_log[2];
    uint64_t next_frame_id = 1;
    bool stop = false;

    int add_node(const std::string &name, const std::string &prog, int (*mainfn)(int, char **), const std::vector<std::string> &argv,
                 bool is_listener);
    void at(uint64_t t, std::function<void()> fn);
    void run(uint64_t t_end, uint64_t max_events);
    bool quiescent() const;

    // transport
    // route to matching sockets after delay; only_node >= 0 restricts to that node, except_node >= 0 excludes it
    void deliver(const Frame &f, uint64_t delay, int only_node = -1, int except_node = -1);
    void inject_to_node(int node, const Frame &f);          // adversary: straight into node's receive sockets
    void inject_can(int bus, const CanRec &c);
    void feed_stdin(int node, uint64_t t, std::vector<uint8_t> bytes);

    // event log
    void log(const char *kind, uint64_t a = 0, uint64_t b = 0, const void *data = nullptr, size_t n = 0);
    void count(const std::string &k, uint64_t n = 1) { counters[k] += n; }

    // called from the syscall wrappers (task context)
    Node &cur_node();
    int cur_node_id();
    void sched_point();
    void block_on(std::vector<int> wait_fds, uint64_t wake_time = 0);
    // delivers the pending signals of the running node; true if a blocking call has to return EINTR
    bool deliver_signals();
    uint64_t node_time(int node) const { return now + (uint64_t)nodes[node].clock_offset; }
    uint64_t node_time_q(int node) const { uint64_t t = node_time(node); return clock_gran > 1 ? t - t % clock_gran : t; }
    int alloc_fd(FdEnt::Kind k);
    FdEnt *fd(int n);
    bool fd_readable(int n);
    void wake_waiters(int fdnum);
    void timer_sched(int fdnum);
    void publish();

  private:
    void process_due();
    sim::Task *pick();
    int last_task_ = -1;
    int rr_left_ = 0;
    std::vector<uint64_t> pct_points_;
};

extern World *g_world;
extern Node *g_handler_node;  // node of the running task iff it is a listener with a handler in progress
void set_log_file(FILE *f);

}  // namespace net
