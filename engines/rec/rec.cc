// rec engine (C05): a PDU is a record of independent fields under any history of operations.
// Simulated callers (tasks) build and inspect PDUs of all formats through every entry point
// (generic by-identifier, dedicated, legacy), interleaved over several buffers; buffers are
// relocated (only the bytes survive) and cloned; after every operation the whole allocation and
// every returned value are compared with an executable reference model driven by spec/fields.def.
#include <sys/mman.h>
#include <unistd.h>
#include <cerrno>
#include <algorithm>
#include <cstring>
#include <map>
#include <set>
#include "../../bindings/bind.h"
#include "../../sim/core.h"
#include "../../sim/cov.h"
#include "../../sim/driver.h"
#include "../../sim/symtab.h"
#include "../../spec/wire.h"
#include "../reent/drivers.h"
// the same drivers compiled behind all public headers in alphabetical (A_) and reverse (Z_) order (tools/build_drv_variants.sh);
// an operation names the variant it goes through (inc=0/1/2)
extern "C" {
extern decltype(drv_can_create) A_drv_can_create, Z_drv_can_create;
extern decltype(drv_can_create_fixed) A_drv_can_create_fixed, Z_drv_can_create_fixed;
extern decltype(drv_can_finalize) A_drv_can_finalize, Z_drv_can_finalize;
extern decltype(drv_can_payload_length) A_drv_can_payload_length, Z_drv_can_payload_length;
extern decltype(drv_can_setpayload) A_drv_can_setpayload, Z_drv_can_setpayload;
extern decltype(drv_canbrief_finalize) A_drv_canbrief_finalize, Z_drv_canbrief_finalize;
extern decltype(drv_canbrief_setpayload) A_drv_canbrief_setpayload, Z_drv_canbrief_setpayload;
extern decltype(drv_vss_decode) A_drv_vss_decode, Z_drv_vss_decode;
extern decltype(drv_vss_encode) A_drv_vss_encode, Z_drv_vss_encode;
extern decltype(drv_vss_pad) A_drv_vss_pad, Z_drv_vss_pad;
}
extern "C" { extern decltype(drv_vss_strarr_pack) A_drv_vss_strarr_pack, Z_drv_vss_strarr_pack; extern decltype(drv_vss_strarr_count) A_drv_vss_strarr_count, Z_drv_vss_strarr_count; extern decltype(drv_generic_field) A_drv_generic_field, Z_drv_generic_field; extern decltype(drv_vss_strarr_unpack) A_drv_vss_strarr_unpack, Z_drv_vss_strarr_unpack; extern decltype(drv_can_payload_two_ways) A_drv_can_payload_two_ways, Z_drv_can_payload_two_ways; }
static int g_inc = 0;
#define DRV(name) (g_inc == 1 ? A_##name : g_inc == 2 ? Z_##name : name)

using sim::Rng;
using sim::strf;

extern "C" void __sanitizer_cov_trace_pc_guard(uint32_t *guard) { sim::cov_hit(*guard); }
extern "C" void __sanitizer_cov_trace_pc(void) {}  // basic-block callback of the gcc-built library (second build): unused here
#if defined(REC_VARIANT_GCC)
#define REC_ENGINE_NAME "recg"
#elif defined(REC_VARIANT_O0)
#define REC_ENGINE_NAME "reco"
#else
#define REC_ENGINE_NAME "rec"
#endif

namespace rec {

// the same bindings compiled behind the system headers the example programs include (tools/build_bind_variant.sh); a history says
// which compilation its calls go through (hdrs=0/1)
extern "C" {
extern const BindFormat *const S_bind_formats[];
extern const unsigned S_bind_nformats;
extern volatile unsigned S_bind_multi_eval;
}
static bool g_app_hdrs = false;
static const BindFormat *find_format(const std::string &n) {
    if (g_app_hdrs) {
        for (unsigned i = 0; i < S_bind_nformats; i++)
            if (n == S_bind_formats[i]->name) return S_bind_formats[i];
        return nullptr;
    }
    for (unsigned i = 0; i < bind_nformats; i++)
        if (n == bind_formats[i]->name) return bind_formats[i];
    return nullptr;
}
static const BindField *find_field(const BindFormat *f, const std::string &n) {
    for (unsigned i = 0; i < f->nfields; i++)
        if (n == f->fields[i].name) return &f->fields[i];
    return nullptr;
}
static bool is_acf(const std::string &n) {
    static const char *a[] = {"FlexRay", "Can", "CanBrief", "Lin", "Most", "Gpc", "Sensor", "SensorBrief", "Vss", "VssBrief", "AcfCommon"};
    for (auto x : a) if (n == x) return true;
    return false;
}

// ------------------------------------------------------------------ generation
static uint64_t pick_value(Rng &r, unsigned width, unsigned limit_bits) {
    uint64_t max = width >= 64 ? ~0ULL : (width ? (1ULL << width) - 1 : 0);
    uint64_t v;
    switch (r.below(10)) {
    case 0: v = 0; break;
    case 1: v = 1; break;
    case 2: v = max; break;
    case 3: v = max + 1; break;                        // one wider than the field
    case 4: v = width ? 1ULL << r.below(std::min(64u, width + 3)) : r.next(); break;  // single bit, possibly above the field
    case 5: v = ~0ULL; break;
    case 6: v = max ? r.next() & max : 0; break;       // fits
    case 7: v = (max >> 1) + 1; break;                 // top bit only
    default: v = r.next() >> r.below(64); break;       // anything, any magnitude
    }
    if (limit_bits < 64) v &= (1ULL << limit_bits) - 1;
    return v;
}

static std::string gen(const std::string &prop, uint64_t base, uint64_t idx, bool thorough) {
    uint64_t seed = sim::run_seed(base, ("rec/" + prop).c_str(), idx);
    Rng r(seed);
    std::string o;
    auto line = [&](const std::string &l) { o += l; o += '\n'; };
    int ntasks = (int)r.range(1, 4);
    line(strf("plan v1 engine=" REC_ENGINE_NAME " prop=%s seed=0x%llx idx=%llu", prop.c_str(), (unsigned long long)seed, (unsigned long long)idx));
    line(strf("cfg tasks=%d gseed=0x%llx pages=%d hdrs=%d", ntasks, (unsigned long long)r.next(), (int)(idx % 5 == 2), (int)(idx % 3 == 0)));
    struct B { int id, task; const BindFormat *f; int pay; };
    std::vector<B> bufs;
    int id = 0;
    for (int t = 0; t < ntasks; t++) {
        int nb = (int)r.range(1, 3);
        for (int k = 0; k < nb; k++) {
            const BindFormat *f = (t == 0 && k == 0) ? bind_formats[idx % bind_nformats] : bind_formats[r.below(bind_nformats)];
            std::string fn = f->name;
            bool cf = fn == "Tscf" || fn == "Ntscf";
            int pay = (int)r.range(0, 6) * 4;
            if ((fn == "Can" || fn == "CanBrief") && r.chance(0.6)) pay = r.chance(0.3) ? 2048 : 68;  // room for the message builders (64 bytes of payload + padding; sometimes for the 9-bit length field's full range)
            if (fn == "Vss" && r.chance(0.6)) pay = (int)(r.coin() ? 2048 : 300);  // room for Avtp_Vss_Pad (message lengths up to 2044 bytes)
            std::vector<std::pair<const BindFormat *, int>> subs;
            if (cf && r.chance(0.6)) {
                int off = 0, ns = (int)r.range(1, 3);
                for (int s = 0; s < ns; s++) {
                    const BindFormat *sf;
                    do sf = bind_formats[r.below(bind_nformats)]; while (!is_acf(sf->name));
                    subs.push_back({sf, off});
                    off += (int)sf->spec_bytes + (int)r.below(3) * 4;
                }
                pay = std::max(pay, off);
            }
            if (fn == "Cvf" && r.chance(0.5)) {  // the format-specific sub-header that follows a CVF header
                static const char *sub[] = {"H264", "Mjpeg", "Jpeg2000"};
                const BindFormat *sf = find_format(sub[r.below(3)]);
                if (sf) { subs.push_back({sf, 0}); pay = std::max(pay, (int)sf->spec_bytes); }
            }
            int me = id++;
            // placement: every byte address (results may depend only on the buffer's bytes, not on where it lies)
            line(strf("buf id=%d task=%d fmt=%s pay=%d align=%d", me, t, f->name, pay, (int)(r.chance(0.5) ? 0 : r.below(8))));
            bufs.push_back({me, t, f, pay});
            for (auto &s : subs) {
                line(strf("buf id=%d task=%d fmt=%s parent=%d off=%d", id, t, s.first->name, me, s.second));
                bufs.push_back({id, t, s.first, 0});
                id++;
            }
            // a second *view* of the same bytes through another format's accessors (the generic ACF header of an ACF message, the
            // common stream header of a stream PDU, AAF <-> AAF-PCM): the header is one record whichever accessor family touches it
            if (r.chance(0.3)) {
                const char *view = nullptr;
                if (is_acf(fn) && fn != "AcfCommon") view = "AcfCommon";
                else if (fn == "Aaf") view = r.coin() ? "Pcm" : "CommonHeader";
                else if (fn == "Pcm") view = r.coin() ? "Aaf" : "CommonHeader";
                else if (fn == "Cvf" || fn == "Crf" || fn == "Rvf" || fn == "Tscf" || fn == "Ntscf") view = "CommonHeader";
                const BindFormat *vf = view ? find_format(view) : nullptr;
                if (vf && vf->spec_bytes <= f->spec_bytes + (unsigned)pay) {
                    line(strf("buf id=%d task=%d fmt=%s parent=%d alias=1", id, t, vf->name, me));
                    bufs.push_back({id, t, vf, 0});
                    id++;
                }
            }
        }
    }
    int nops = (int)(r.chance(0.2) ? r.range(3, 20) : r.range(20, thorough ? 1000 : 300));
    // the hand-driven operations of a history go through one of three compilations of the drivers: header included alone, or behind
    // all public headers in alphabetical / reverse order (what one header leaves behind for the next is part of an application's context)
    int inc_variant = (int)(idx % 4 == 1 ? 1 : idx % 4 == 3 ? 2 : 0);
    int cur = (int)r.below(bufs.size());
    std::map<int, std::vector<std::string>> written;  // buffer -> fields written so far
    for (int i = 0; i < nops; i++) {
        if (r.chance(0.4)) cur = (int)r.below(bufs.size());
        const B &b = bufs[cur];
        const BindFormat *f = b.f;
        if (r.chance(0.06)) {
            const BindField *cfl = &f->fields[r.below(f->nfields)];
            if (cfl->ncset) { line(strf("op b=%d setc f=%s k=%u", b.id, cfl->name, (unsigned)r.below(cfl->ncset))); written[b.id].push_back(cfl->name); continue; }
        }
        if (std::string(f->name) == "Vss" && b.pay >= 300 && r.chance(0.10)) {
            // the VSS codec proper, scalar datatypes: addressing mode and datatype fields, path (static id or length-prefixed string) and value
            unsigned am = (unsigned)r.below(2), dt = (unsigned)r.below(11);
            static const unsigned nb[] = {1, 1, 2, 2, 4, 4, 8, 8, 1, 4, 8};
            if (r.chance(0.4)) {  // string or array value: 16-bit byte count, then the elements in network byte order
                static const unsigned vdt[] = {0xB, 0x80, 0x81, 0x82, 0x83, 0x84, 0x85, 0x86, 0x87, 0x88, 0x89, 0x8A, 0x8B};
                static const unsigned ves[] = {1, 1, 1, 2, 2, 4, 4, 8, 8, 1, 4, 8, 1};
                unsigned vi = (unsigned)r.below(13), es = ves[vi];
                unsigned plen2 = am == 1 ? 0 : (unsigned)r.below(std::min(200, b.pay / 2));
                unsigned roomv = (unsigned)b.pay - (am == 1 ? 4 : 2 + plen2) - 2 - 8;
                unsigned nel = (unsigned)(r.chance(0.5) ? r.below(8) : r.below(roomv / es + 1));
                line(strf("op b=%d vssenc am=%u dt=%u plen=%u sid=0x%x v=0x0 pseed=0x%llx alen=%u inc=%d", b.id, am, vdt[vi], plen2, (unsigned)r.next(), (unsigned long long)r.next(), nel * es, inc_variant));
                if (r.coin()) { line(strf("op b=%d vssdec q=%d inc=%d", b.id, (int)r.coin(), inc_variant)); i++; }
                continue;
            }
            unsigned room = (unsigned)b.pay - nb[dt] - 2;
            unsigned plen = am == 1 ? 0 : (unsigned)(r.chance(0.4) ? std::min<unsigned>(room, (unsigned[]){0, 1, 13, 255, 256, 1009, 1010, 1013, 1020, 1021, 2000}[r.below(11)]) : r.below(room + 1));
            line(strf("op b=%d vssenc am=%u dt=%u plen=%u sid=0x%x v=0x%llx pseed=0x%llx", b.id, am, dt, plen, (unsigned)r.next(), (unsigned long long)(dt == 8 ? r.below(2) : r.next()),
                      (unsigned long long)r.next()) + strf(" inc=%d", inc_variant));
            if (r.coin()) { line(strf("op b=%d vssdec inc=%d", b.id, inc_variant)); i++; }
            continue;
        }
        if (r.chance(0.015)) {
            // the generic field codec with a table of the application's own: a header of up to 64 bytes (16 quadlets) with fields inside one
            // quadlet and 48/64-bit fields that start a quadlet, written and read in seeded order
            line(strf("op b=%d custom tseed=0x%llx nops=%u inc=%d", b.id, (unsigned long long)r.next(), (unsigned)r.range(4, 24), inc_variant));
            continue;
        }
        if (std::string(f->name) == "Vss" && r.chance(0.03)) {
            // the string-array helper: packs a table of strings into the block that datatype 0x8B carries; what it produces depends on the strings only
            bool bigarr = r.chance(0.12);  // (a table of dozens of long strings: 32-64 KiB packed, what a 16-bit length can describe)
            int n = (int)(bigarr ? r.range(34, 48) : r.range(0, 6));
            std::string lens;
            for (int k = 0; k < n; k++) lens += strf("%s%u", k ? "," : "", (unsigned)(bigarr ? r.range(700, 1360) : r.chance(0.7) ? r.range(0, 12) : r.range(13, 90)));
            line(strf("op b=%d strarr n=%d lens=%s stale=0x%x sseed=0x%llx inc=%d", b.id, n, lens.empty() ? "-" : lens.c_str(), (unsigned)r.below(65536), (unsigned long long)r.next(), inc_variant));
            continue;
        }
        if (std::string(f->name) == "Vss" && b.pay >= 300 && r.chance(0.12)) {
            // Avtp_Vss_Pad is a compound write as well: zeroed padding, acf_msg_length and pad fields for a message of the given length
            unsigned maxlen = (unsigned)std::min<int>(2044, (int)f->spec_bytes + b.pay - 4);
            unsigned len = (unsigned)(r.chance(0.4) ? (unsigned[]){12, 13, 255, 256, 1020, 1021, 1023, 1024, 2041, 2044}[r.below(10)] : r.range(12, maxlen));
            if (len > maxlen) len = maxlen;
            line(strf("op b=%d build kind=vsspad id=0x0 len=%u variant=0 dseed=0x1 inc=%d", b.id, len, inc_variant));
            continue;
        }
        if (b.pay >= 68 && r.chance(0.12)) {
            // the ACF-CAN message builders are compound writes: payload copy, identifier/EFF/FDF, length and pad fields, zeroed padding
            static const char *kinds[] = {"create", "create", "setpayload", "finalize"};
            unsigned len = (unsigned)(r.chance(0.3) ? (unsigned[]){0, 1, 3, 4, 5, 8, 12, 63, 64}[r.below(9)] : r.below(65));
            if (b.pay >= 2048 && r.chance(0.5)) len = (unsigned)(r.coin() ? (unsigned[]){65, 255, 256, 1004, 1005, 1008, 1009, 2024, 2028}[r.below(9)] : r.range(65, 2028));
            uint32_t bid = (uint32_t)(r.chance(0.4) ? (uint32_t[]){0, 1, 0x7ff, 0x800, 0x1fffffff, 0x20000000, 0xffffffffu}[r.below(7)] : r.next());
            // (a data-less frame is also built with a null payload pointer)
            line(strf("op b=%d build kind=%s id=0x%x len=%u variant=%d dseed=0x%llx%s", b.id, kinds[r.below(4)], bid, len, (int)(r.chance(0.2) ? -1 - (int)r.below(2) : r.chance(0.85) ? r.below(2) : (unsigned[]){2, 3, 4, 8, 16, 255}[r.below(6)]), (unsigned long long)r.next(),
                      (len == 0 && r.coin()) ? " nullp=1" : r.chance(0.3) ? " fixed=1" : r.chance(0.15) ? " inplace=1" : r.chance(idx % 5 == 2 ? 0.35 : 0.02) ? strf(" far=%d", (int)r.range(1, 3)).c_str() : "") + strf(" inc=%d", inc_variant));
            continue;
        }
        unsigned k = (unsigned)r.below(100);
        auto pick_field = [&](bool prefer_written) -> const BindField * {
            auto &w = written[b.id];
            if (prefer_written && !w.empty() && r.chance(0.7)) return find_field(f, w[r.below(w.size())]);
            return &f->fields[r.below(f->nfields)];
        };
        auto via_for = [&](const BindField *fl, bool set) -> const char * {
            std::vector<const char *> v;
            if (fl->field_id >= 0 && (set ? f->setfield != nullptr : f->getfield != nullptr)) v.push_back("gen");
            if (set ? fl->set != nullptr : fl->get != nullptr) { v.push_back("ded"); v.push_back("ded"); }
            if ((set ? f->legacy_set != nullptr : f->legacy_get != nullptr) && fl->field_id >= 0) v.push_back("leg");
            if (v.empty()) return nullptr;
            return v[r.below(v.size())];
        };
        if (k < 5) {
            const char *via = (f->legacy_init && r.coin()) ? "legacy" : "cur";
            if (!f->init && !f->legacy_init && !f->legacy_init2) continue;
            if (!f->init) via = "legacy";
            if (f->legacy_init2 && r.coin()) via = "legacy2";
            line(strf("op b=%d init via=%s v=0x%llx", b.id, via, (unsigned long long)(r.coin() ? r.below(4) : r.below(256))));  // format subtypes in use are 0..2
            written[b.id].clear();
        } else if (k < 50) {
            const BindField *fl = pick_field(false);
            const char *via = via_for(fl, true);
            if (!via) continue;
            unsigned lim = !strcmp(via, "ded") ? fl->set_bits : !strcmp(via, "leg") ? f->legacy_val_bits : 64;
            if (r.chance(0.2)) {
                // value derived from what the field holds at that moment (resolved when the history is executed)
                static const char *vk[] = {"same", "bswap", "low32", "high32", "inv", "inc", "dec", "topbit", "shl8", "shr8"};
                line(strf("op b=%d set f=%s via=%s vk=%s", b.id, fl->name, via, vk[r.below(10)]));
            } else {
                line(strf("op b=%d set f=%s via=%s v=0x%llx", b.id, fl->name, via, (unsigned long long)pick_value(r, fl->width, lim)));
            }
            written[b.id].push_back(fl->name);
        } else if (k < 80) {
            const BindField *fl = pick_field(true);
            const char *via = via_for(fl, false);
            if (!via) continue;
            line(strf("op b=%d get f=%s via=%s", b.id, fl->name, via));
        } else if (k < 83) {
            line(strf("op b=%d again", b.id));
        } else if (k < 86) {
            const BindField *fl = pick_field(true);
            if (!fl->fused) continue;
            line(strf("op b=%d fused f=%s v=0x%llx init=%d", b.id, fl->name, (unsigned long long)pick_value(r, fl->width, fl->set_bits), (int)(f->init && r.chance(0.25))));
            written[b.id].push_back(fl->name);
        } else if (k < 93) {
            const BindField *f1 = pick_field(false), *f2 = pick_field(false);
            if (f1 == f2) continue;
            const char *v1 = via_for(f1, true), *v2 = via_for(f2, true);
            if (!v1 || !v2) continue;
            unsigned l1 = !strcmp(v1, "ded") ? f1->set_bits : !strcmp(v1, "leg") ? f->legacy_val_bits : 64;
            unsigned l2 = !strcmp(v2, "ded") ? f2->set_bits : !strcmp(v2, "leg") ? f->legacy_val_bits : 64;
            line(strf("op b=%d commute f1=%s via1=%s v1=0x%llx f2=%s via2=%s v2=0x%llx", b.id, f1->name, v1, (unsigned long long)pick_value(r, f1->width, l1),
                      f2->name, v2, (unsigned long long)pick_value(r, f2->width, l2)));
            written[b.id].push_back(f1->name);
            written[b.id].push_back(f2->name);
        } else {
            line(strf("op b=%d reloc align=%d", b.id, (int)(r.chance(0.4) ? 0 : r.below(8))));
        }
    }
    return o;
}

// ------------------------------------------------------------------ execution
constexpr size_t kGuard = 16;

struct Alloc {  // one top-level allocation: [guard][header][payload][guard], placed at raw + align
    uint8_t *raw = nullptr;
    uint8_t *mem = nullptr;
    size_t size = 0;
    std::vector<uint8_t> model;
};
struct Buf {
    int id = -1, task = 0, parent = -1;
    const BindFormat *f = nullptr;
    size_t off = 0;   // offset of this PDU inside the allocation (of the top-level ancestor)
    int alloc = -1;   // index into allocs
    // last write (for "again")
    bool has_last = false;
    std::string last_field, last_via;
    uint64_t last_v = 0;
    // bookkeeping for probes
    std::map<std::string, int> wr_seq;       // field -> op index of last write
    std::map<std::string, int> wr_task_seq;
    std::map<std::string, std::string> wr_via;
    int last_reloc = -1;
    // the VSS message last encoded into this buffer (valid until another operation writes the buffer)
    bool vss_ok = false;
    unsigned vss_am = 0, vss_dt = 0;
    std::vector<char> vss_path;
    std::vector<uint8_t> vss_arr;
    uint64_t vss_v = 0;
    int vss_op = -1;
};

static sim::RunResult g_res;
static sim::Digest g_digest;
static bool g_verbose;
static uint64_t g_events;

static void ev(const char *what, const std::string &detail) {
    g_digest.adds(what);
    g_digest.adds(detail.c_str());
    g_events++;
    if (sim::g_shm) { sim::g_shm->digest = g_digest.h; sim::g_shm->events = g_events; snprintf(sim::g_shm->note, sizeof sim::g_shm->note, "%s %s", what, detail.c_str()); }
    if (g_verbose) printf("%6llu %-10s %s\n", (unsigned long long)g_events, what, detail.c_str());
}

[[noreturn]] static void violation(const std::string &sig, const std::string &detail) {
    g_res.status = 1;
    g_res.sig = "rec:" + sig;
    g_res.detail = detail;
    g_res.digest = g_digest.h;
    g_res.events = g_events;
    g_res.nontrivial = true;
    sim::finish_run(g_res);
}

// Overwrites the stack area that the next library call is going to use, so that a local variable that is read before it is written
// (visible in the -O0 build, where locals live in memory) sees seeded garbage rather than whatever the previous call happened to leave.
__attribute__((noinline, no_sanitize("address"))) static void dirty_stack(uint64_t pattern) {
    // written below this function's own stack pointer (no frame, no sanitizer red zones in between): exactly the bytes the callee's
    // frames are going to occupy
    uintptr_t sp;
    __asm__ volatile("mov %%rsp, %0" : "=r"(sp));
    volatile uint64_t *p = (volatile uint64_t *)(sp & ~(uintptr_t)7) - 1;
    for (int i = 0; i < 768; i++) *p-- = pattern;
    __asm__ volatile("" ::: "memory");
}

// Buffers live in malloc'ed blocks, or (cfg pages=1) in pages of their own that are made READ-ONLY while a getter runs:
// reading a field must not store to the PDU (a header in a const test vector or a read-only mapping is a legitimate argument).
static bool g_pages = false;
static size_t pages_len(size_t n) { return (n + 8 + 4095) & ~(size_t)4095; }
static uint8_t *buf_alloc(size_t n) {
    if (!g_pages) return (uint8_t *)malloc(n + 8);
    void *p = mmap(nullptr, pages_len(n), PROT_READ | PROT_WRITE, MAP_PRIVATE | MAP_ANONYMOUS, -1, 0);
    return p == MAP_FAILED ? nullptr : (uint8_t *)p;
}
static void buf_free(uint8_t *p, size_t n) { if (!g_pages) free(p); else munmap(p, pages_len(n)); }
static void buf_protect(uint8_t *raw, size_t n, bool ro) { if (g_pages) mprotect(raw, pages_len(n), ro ? PROT_READ : PROT_READ | PROT_WRITE); }

static uint64_t g_dirty_pat = ~0ULL;
// (errno is the caller's as well: a stale value - a function of the operation index - must not influence a library call)
static int g_stale_errno = 0;
// While library code runs, the guard bytes around the allocation in hand are poisoned for the address sanitizer: reading them is as
// much a trespass as writing them (a getter that fetches a quadlet beyond the header faults when the header ends where memory ends)
extern "C" void __asan_poison_memory_region(void const volatile *addr, size_t size) __attribute__((weak));
extern "C" void __asan_unpoison_memory_region(void const volatile *addr, size_t size) __attribute__((weak));
static void guards_poison(const Alloc &a, bool on) {
    auto fn = on ? __asan_poison_memory_region : __asan_unpoison_memory_region;
    if (!fn || !a.mem || a.size < 2 * kGuard) return;
    fn(a.mem, kGuard);
    fn(a.mem + a.size - kGuard, kGuard);
}
static const Alloc *g_cur_alloc = nullptr;  // the allocation the operation in hand works on
#define DIRTY() do { errno = g_stale_errno; if (g_cur_alloc) guards_poison(*g_cur_alloc, true); dirty_stack(g_dirty_pat); } while (0)

static void fill_garbage(uint8_t *p, size_t n, Rng &r) {
    for (size_t i = 0; i < n; i++) p[i] = (uint8_t)r.next();
}

static uint64_t mask_w(unsigned w) { return w >= 64 ? ~0ULL : (w ? (1ULL << w) - 1 : 0); }

static void do_write(const BindFormat *f, const BindField *fl, const std::string &via, uint8_t *pdu, uint64_t v) {
    int how = via == "gen" ? 0 : via == "ded" ? 1 : 2;
    DIRTY();
    if (how == 0) f->setfield(pdu, fl->field_id, v);
    else if (how == 1) fl->set(pdu, v);
    else f->legacy_set(pdu, fl->legacy_id >= 0 ? fl->legacy_id : fl->field_id, v);
}
static uint64_t arg_value(const BindFormat *f, const BindField *fl, const std::string &via, uint64_t v) {
    unsigned lim = via == "ded" ? fl->set_bits : via == "leg" ? f->legacy_val_bits : 64;
    return lim >= 64 ? v : v & ((1ULL << lim) - 1);
}

static std::string first_diff(const uint8_t *a, const uint8_t *b, size_t n, size_t pdu_off, size_t hdr) {
    for (size_t i = 0; i < n; i++)
        if (a[i] != b[i]) {
            long rel = (long)i - (long)pdu_off;
            const char *where = i < kGuard ? "guard-before" : rel < 0 ? "before-pdu" : (size_t)rel < hdr ? "header" : i >= n - kGuard ? "guard-after" : "payload";
            return strf("byte %ld relative to the PDU (%s): is 0x%02x, reference 0x%02x", rel, where, a[i], b[i]);
        }
    return "";
}

static void exec(const std::string &text, bool verbose) {
    g_verbose = verbose;
    std::vector<Alloc> allocs;
    std::map<int, Buf> bufs;
    uint64_t gseed = 1;
    int op_index = 0;
    std::string prop = "C05";
    auto lines = sim::split_lines(text);
    Rng garbage(1);
    // probes / non-triviality
    uint64_t pr_alias = 0, pr_cross = 0, pr_wide = 0, pr_reloc_rw = 0, pr_leg_cur = 0, pr_switch_rw = 0, pr_sub = 0, pr_nontrivial = 0, n_set = 0, n_get = 0, n_init = 0, n_comm = 0;
    std::map<std::string, uint64_t> per_entry;
    int last_task = -1;
    int task_switches = 0;
    for (auto &line : lines) {
        if (line.empty() || line[0] == '#') continue;
        sim::KV kv(line);
        if (kv.op == "plan") { prop = kv.str("prop", "C05"); continue; }
        if (kv.op == "cfg") { g_pages = kv.u64("pages", 0); g_app_hdrs = kv.u64("hdrs", 0); gseed = kv.u64("gseed", 1); garbage.reseed(gseed); if (sim::g_shm) snprintf(sim::g_shm->context, sizeof sim::g_shm->context, "%s", prop.c_str()); continue; }
        if (kv.op == "buf") {
            Buf b;
            b.id = (int)kv.u64("id");
            b.task = (int)kv.u64("task");
            b.f = find_format(kv.str("fmt"));
            if (!b.f) continue;
            if (kv.has("parent")) {
                auto it = bufs.find((int)kv.u64("parent"));
                if (it == bufs.end()) continue;
                b.parent = it->first;
                b.alloc = it->second.alloc;
                b.off = kv.u64("alias", 0) ? it->second.off : it->second.off + it->second.f->spec_bytes + kv.u64("off");
                if (kv.u64("alias", 0)) pr_alias++;
                // the sub-PDU must fit into the parent's allocation
                if (b.off + b.f->spec_bytes > allocs[b.alloc].size - kGuard) continue;
            } else {
                Alloc a;
                a.size = kGuard + b.f->spec_bytes + kv.u64("pay") + kGuard;
                a.raw = buf_alloc(a.size);
                if (!a.raw) continue;
                a.mem = a.raw + (kv.u64("align", 0) & 7);
                fill_garbage(a.mem, a.size, garbage);
                a.model.assign(a.mem, a.mem + a.size);
                b.alloc = (int)allocs.size();
                b.off = kGuard;
                allocs.push_back(a);
            }
            bufs[b.id] = b;
            ev("buf", strf("id=%d fmt=%s task=%d parent=%d off=%zu", b.id, b.f->name, b.task, b.parent, b.off));
            continue;
        }
        if (kv.op != "op") continue;
        op_index++;
        {   // stack residue: all-ones, 0xA5, small values or random bytes, by operation index
            static const uint64_t pats[] = {~0ULL, 0xA5A5A5A5A5A5A5A5ULL, 0x0101010101010101ULL, 0x0302010003020100ULL};
            g_dirty_pat = (op_index & 4) ? garbage.next() : pats[op_index & 3];
            static const int errs[] = {0, 0, EINVAL, EMSGSIZE, ERANGE, EOVERFLOW, ENOMEM, EAGAIN, EINTR, ENOBUFS, E2BIG, EDOM};
            g_stale_errno = errs[(op_index * 7 + 3) % 12];
        }
        auto bit = bufs.find((int)kv.u64("b"));
        if (bit == bufs.end()) continue;
        Buf &b = bit->second;
        Alloc &a = allocs[b.alloc];
        const BindFormat *f = b.f;
        uint8_t *pdu = a.mem + b.off;
        uint8_t *mpdu = a.model.data() + b.off;
        if (last_task != -1 && last_task != b.task) task_switches++;
        last_task = b.task;
        if (b.parent >= 0) pr_sub++;
        std::string what = kv.kv.empty() ? "" : kv.kv[1].first;  // kv[0] is b=
        g_inc = (int)(kv.u64("inc", 0) % 3);
        for (auto &al : allocs) guards_poison(al, false);
        g_cur_alloc = &a;
        auto check_bytes = [&](const std::string &sigtail, const std::string &ctx) {
            guards_poison(a, false);
            if (bind_multi_eval || S_bind_multi_eval)
                violation("eval:" + sigtail, ctx + ": the accessor evaluated an argument expression more than once (it is a function-like macro that mentions its parameter "
                                                    "twice); with an argument like next(&cursor) it reads one message and writes another");
            if (memcmp(a.mem, a.model.data(), a.size) != 0)
                violation("bytes:" + sigtail, ctx + ": " + first_diff(a.mem, a.model.data(), a.size, b.off, f->spec_bytes));
        };
        if (what == "init") {
            std::string via = kv.str("via", "cur");
            bool legacy = via == "legacy", legacy2 = via == "legacy2";
            if (legacy2 ? !f->legacy_init2 : legacy ? !f->legacy_init : !f->init) continue;
            ev("init", strf("b=%d fmt=%s via=%s", b.id, f->name, via.c_str()));
            DIRTY();
            if (legacy2) f->legacy_init2(pdu, (unsigned)kv.u64("v")); else if (legacy) f->legacy_init(pdu); else f->init(pdu);
            memcpy(mpdu, f->init_bytes, f->spec_bytes);
            if (legacy2) {  // avtp_cvf_pdu_init(pdu, format_subtype)
                const BindField *fs = find_field(f, "FORMAT_SUBTYPE");
                if (fs) wire::set_bits(mpdu, fs->bit, fs->width, kv.u64("v") & 0xff);
            }
            n_init++;
            per_entry[std::string("entry.init.") + via]++;
            check_bytes(strf("%s.<init>:%s", f->name, via.c_str()), strf("after initialising a %s header (%s entry point) over garbage", f->name, via.c_str()));
            b.wr_seq.clear();
            b.has_last = false;
            continue;
        }
        if (what == "set") {
            const BindField *fl = find_field(f, kv.str("f"));
            std::string via = kv.str("via");
            if (!fl) continue;
            if ((via == "gen" && (!f->setfield || fl->field_id < 0)) || (via == "ded" && !fl->set) || (via == "leg" && (!f->legacy_set || fl->field_id < 0))) continue;
            uint64_t raw_v = kv.u64("v");
            if (kv.has("vk")) {
                std::string vk = kv.str("vk");
                uint64_t cur = fl->width ? wire::get_bits(mpdu, fl->bit, fl->width) : 0, m = mask_w(fl->width);
                unsigned nb = (fl->width + 7) / 8;
                if (vk == "same") raw_v = cur;
                else if (vk == "bswap") { raw_v = 0; for (unsigned i = 0; i < nb; i++) raw_v |= ((cur >> (8 * i)) & 0xff) << (8 * (nb - 1 - i)); }
                else if (vk == "low32") raw_v = cur & 0xffffffffULL;
                else if (vk == "high32") raw_v = cur >> 32;
                else if (vk == "inv") raw_v = ~cur & m;
                else if (vk == "inc") raw_v = cur + 1;
                else if (vk == "dec") raw_v = cur - 1;
                else if (vk == "topbit") raw_v = cur ^ ((m >> 1) + 1);
                else if (vk == "shl8") raw_v = cur << 8;
                else if (vk == "shr8") raw_v = cur >> 8;
                per_entry["value.derived"]++;
            }
            uint64_t v = arg_value(f, fl, via, raw_v);
            ev("set", strf("b=%d %s.%s via=%s v=0x%llx", b.id, f->name, fl->name, via.c_str(), (unsigned long long)v));
            do_write(f, fl, via, pdu, v);
            wire::set_bits(mpdu, fl->bit, fl->width, v & mask_w(fl->width));
            n_set++;
            per_entry["entry.set." + via]++;
            if (fl->width && (fl->bit % 32) + fl->width > 32) pr_cross++;
            if (fl->width < 64 && v > mask_w(fl->width)) pr_wide++;
            check_bytes(strf("%s.%s:%s", f->name, fl->name, via.c_str()),
                        strf("after writing 0x%llx to %s.%s through the %s entry point", (unsigned long long)v, f->name, fl->name, via.c_str()));
            b.has_last = true; b.last_field = fl->name; b.last_via = via; b.last_v = v;
            b.wr_seq[fl->name] = op_index;
            b.wr_task_seq[fl->name] = task_switches;
            b.wr_via[fl->name] = via;
            continue;
        }
        if (what == "get") {
            const BindField *fl = find_field(f, kv.str("f"));
            std::string via = kv.str("via");
            if (!fl) continue;
            if ((via == "gen" && (!f->getfield || fl->field_id < 0)) || (via == "ded" && !fl->get) || (via == "leg" && (!f->legacy_get || fl->field_id < 0))) continue;
            uint64_t got = 0;
            int how = via == "gen" ? 0 : via == "ded" ? 1 : 2;
            buf_protect(a.raw, a.size, true);
            if (g_pages) per_entry["entry.get.on_read_only_pages"]++;
            if (g_app_hdrs) per_entry["entry.get.through_bindings_compiled_behind_system_headers"]++;
            DIRTY();
            if (how == 0) got = f->getfield(pdu, fl->field_id);
            else if (how == 1) got = fl->get(pdu);
            else f->legacy_get(pdu, fl->legacy_id >= 0 ? fl->legacy_id : fl->field_id, &got);
            buf_protect(a.raw, a.size, false);
            uint64_t want = fl->width ? wire::get_bits(mpdu, fl->bit, fl->width) : 0;
            ev("get", strf("b=%d %s.%s via=%s -> 0x%llx", b.id, f->name, fl->name, via.c_str(), (unsigned long long)got));
            n_get++;
            per_entry["entry.get." + via]++;
            if (got != want)
                violation(strf("read:%s.%s:%s", f->name, fl->name, via.c_str()),
                          strf("%s.%s read through the %s entry point returned 0x%llx, the field holds 0x%llx", f->name, fl->name, via.c_str(),
                               (unsigned long long)got, (unsigned long long)want));
            check_bytes(strf("%s.%s:get-%s", f->name, fl->name, via.c_str()), strf("a read of %s.%s modified memory", f->name, fl->name));
            auto ws = b.wr_seq.find(fl->name);
            if (ws != b.wr_seq.end()) {
                // non-trivial: another field of the same quadlet was written between this field's write and this read
                for (auto &o : b.wr_seq) {
                    if (o.first == fl->name || o.second <= ws->second) continue;
                    const BindField *of = find_field(f, o.first);
                    if (of && of->width && fl->width && of->bit / 32 == fl->bit / 32) { pr_nontrivial++; break; }
                }
                if (b.last_reloc > ws->second) pr_reloc_rw++;
                if (b.wr_via[fl->name] == "leg" && via != "leg") pr_leg_cur++;
                if (b.wr_task_seq[fl->name] != task_switches) pr_switch_rw++;
            }
            continue;
        }
        if (what == "fused") {
            const BindField *fl = find_field(f, kv.str("f"));
            if (!fl || !fl->fused) continue;
            bool with_init = kv.u64("init", 0) && f->init;
            uint64_t v = arg_value(f, fl, "ded", kv.u64("v"));
            uint64_t want_before = fl->width ? wire::get_bits(mpdu, fl->bit, fl->width) : 0, before = 0;
            ev("fused", strf("b=%d %s.%s v=0x%llx init=%d", b.id, f->name, fl->name, (unsigned long long)v, (int)with_init));
            DIRTY();
            uint64_t after = fl->fused(pdu, v, &before, with_init);
            if (with_init) memcpy(mpdu, f->init_bytes, f->spec_bytes);
            else wire::set_bits(mpdu, fl->bit, fl->width, v & mask_w(fl->width));
            uint64_t want_after = fl->width ? wire::get_bits(mpdu, fl->bit, fl->width) : 0;
            per_entry["entry.fused"]++;
            if (before != want_before || after != want_after)
                violation(strf("read:%s.%s:fused", f->name, fl->name),
                          strf("read / %s / read of %s.%s in one caller returned 0x%llx then 0x%llx, the field held 0x%llx and then 0x%llx", with_init ? "init" : "write",
                               f->name, fl->name, (unsigned long long)before, (unsigned long long)after, (unsigned long long)want_before, (unsigned long long)want_after));
            check_bytes(strf("%s.%s:fused", f->name, fl->name), strf("after read/%s/read of %s.%s", with_init ? "init" : "write", f->name, fl->name));
            b.has_last = false;
            b.wr_seq[fl->name] = op_index; b.wr_task_seq[fl->name] = task_switches; b.wr_via[fl->name] = "ded";
            if (with_init) b.wr_seq.clear();
            continue;
        }
        if (what == "setc") {
            const BindField *fl = find_field(f, kv.str("f"));
            if (!fl || !fl->ncset) continue;
            unsigned k = (unsigned)kv.u64("k") % fl->ncset;
            uint64_t v = fl->cval[k];
            ev("setc", strf("b=%d %s.%s v=0x%llx", b.id, f->name, fl->name, (unsigned long long)v));
            DIRTY();
            fl->cset[k](pdu);
            wire::set_bits(mpdu, fl->bit, fl->width, v & mask_w(fl->width));
            per_entry["entry.set.constant"]++;
            check_bytes(strf("%s.%s:ded-const", f->name, fl->name), strf("after writing the constant 0x%llx to %s.%s through the dedicated setter", (unsigned long long)v, f->name, fl->name));
            b.has_last = false;
            b.wr_seq[fl->name] = op_index; b.wr_task_seq[fl->name] = task_switches; b.wr_via[fl->name] = "ded";
            continue;
        }
        if (what == "custom") {
            Rng tr(kv.u64("tseed", 1));
            // build the table: walk through 16 quadlets, cut each into fields or let a 48/64-bit field start there
            std::vector<uint8_t> desc;
            std::vector<std::pair<unsigned, unsigned>> fld;  // (first bit, width)
            for (unsigned q = 0; q < 16 && fld.size() < 30;) {
                if (q + 2 <= 16 && tr.chance(0.15)) { unsigned w = tr.coin() ? 64 : 48; desc.insert(desc.end(), {(uint8_t)q, 0, (uint8_t)w}); fld.push_back({q * 32, w}); if (w == 48 && fld.size() < 30) { desc.insert(desc.end(), {(uint8_t)(q + 1), 16, 16}); fld.push_back({q * 32 + 48, 16}); } q += 2; continue; }
                for (unsigned off = 0; off < 32 && fld.size() < 30;) {
                    unsigned w = (unsigned)tr.range(1, 32 - off);
                    if (tr.chance(0.3)) w = 32 - off;
                    desc.insert(desc.end(), {(uint8_t)q, (uint8_t)off, (uint8_t)w});
                    fld.push_back({q * 32 + off, w});
                    off += w;
                }
                q++;
                if (tr.chance(0.2)) q += (unsigned)tr.below(3);  // (quadlets the table does not describe)
            }
            int n = (int)fld.size();
            std::vector<uint8_t> hdr(64 + 32), mdl;
            for (auto &x : hdr) x = (uint8_t)tr.next();
            mdl = hdr;
            uint8_t *hp = hdr.data() + 16;  // (16 bytes before and behind the header must stay as they are)
            const uint8_t *dp = desc.data();
            unsigned nops = (unsigned)kv.u64("nops", 8);
            ev("custom", strf("fields=%d ops=%u", n, nops));
            for (unsigned k = 0; k < nops && n > 0; k++) {
                int fi = (int)tr.below((uint64_t)n);
                uint64_t m = mask_w(fld[fi].second);
                if (tr.chance(0.6)) {
                    uint64_t v = tr.chance(0.3) ? ~0ULL : tr.next() >> tr.below(64);
                    DIRTY();
                    DRV(drv_generic_field)(dp, n, hp, fi, 1, v);
                    wire::set_bits(mdl.data() + 16, fld[fi].first, fld[fi].second, v & m);
                    per_entry["entry.custom_table.set"]++;
                } else {
                    DIRTY();
                    uint64_t got = DRV(drv_generic_field)(dp, n, hp, fi, 0, 0);
                    uint64_t want = wire::get_bits(mdl.data() + 16, fld[fi].first, fld[fi].second);
                    per_entry["entry.custom_table.get"]++;
                    if (got != want)
                        violation("read:custom-table", strf("field %d of an application-defined table (quadlet %u, offset %u, %u bits) reads 0x%llx, the bytes say 0x%llx", fi,
                                                            fld[fi].first / 32, fld[fi].first % 32, fld[fi].second, (unsigned long long)got, (unsigned long long)want));
                }
                if (hdr != mdl) {
                    size_t d = 0; while (d < hdr.size() && hdr[d] == mdl[d]) d++;
                    violation("bytes:custom-table", strf("after an access to field %d of an application-defined table (quadlet %u, offset %u, %u bits) byte %ld of the header holds 0x%02x, the reference 0x%02x",
                                                         fi, fld[fi].first / 32, fld[fi].first % 32, fld[fi].second, (long)d - 16, hdr[d], mdl[d]));
                }
            }
            check_bytes("custom-table", "after operations on a header of the application's own (the message in hand is not an argument)");
            continue;
        }
        if (what == "strarr") {
            int n = (int)kv.u64("n");
            std::vector<unsigned> L;
            { std::string ls = kv.str("lens", "-"); if (ls != "-") { size_t p0 = 0; while (p0 <= ls.size()) { size_t q = ls.find(',', p0); L.push_back((unsigned)strtoul(ls.substr(p0, q - p0).c_str(), nullptr, 10)); if (q == std::string::npos) break; p0 = q + 1; } } }
            if (n < 0 || n > 48 || (int)L.size() != n) continue;
            Rng sr(kv.u64("sseed", 1));
            std::vector<std::vector<char>> strs(n);
            std::vector<char *> sp(n ? n : 1);
            std::vector<uint16_t> sl(n ? n : 1);
            std::vector<uint8_t> ref;
            for (int k = 0; k < n; k++) {
                strs[k].resize(L[k] + 1);
                for (auto &ch : strs[k]) ch = (char)(0x20 + sr.below(0x5f));
                sp[k] = strs[k].data(); sl[k] = (uint16_t)L[k];
                ref.push_back((uint8_t)(L[k] >> 8)); ref.push_back((uint8_t)L[k]);
                ref.insert(ref.end(), strs[k].begin(), strs[k].begin() + L[k]);
            }
            std::vector<uint8_t> packed(ref.size() + 64, 0x7e);
            ev("strarr", strf("n=%d bytes=%zu", n, ref.size()));
            uint8_t *pp = packed.data();
            char **spp = sp.data();
            uint16_t *slp = sl.data();
            uint16_t stale = (uint16_t)kv.u64("stale", 0);
            DIRTY();
            uint64_t got = DRV(drv_vss_strarr_pack)(pp, spp, slp, n, stale);
            per_entry["entry.vss_string_array_pack"]++;
            if ((got >> 16) != ref.size() || (got & 0xffff) != (uint64_t)n)
                violation("read:Vss.<strarr>:length", strf("packing %d strings of %zu bytes in all (length field of the descriptor held %u before the call) reports %llu bytes and %llu strings",
                                                             n, ref.size(), stale, (unsigned long long)(got >> 16), (unsigned long long)(got & 0xffff)));
            if (memcmp(packed.data(), ref.data(), ref.size()) != 0 || packed[ref.size()] != 0x7e || packed[ref.size() + 1] != 0x7e)
                violation("bytes:Vss.<strarr>", strf("the packed block of %d strings differs from 16-bit length + bytes per string, or bytes behind it were written", n));
            check_bytes("Vss.<strarr>", "after packing a string array into a buffer of its own (the message is not an argument)");
            // ... and unpacking yields the strings again, whatever the destination descriptors' length fields held before (they are outputs)
            if (n >= 1) {
                std::vector<std::vector<char>> dst(n);
                std::vector<char *> dp(n);
                std::vector<uint16_t> ol(n, 0xEEEE);
                for (int k = 0; k < n; k++) { dst[k].assign(L[k] + 8, 0x7e); dp[k] = dst[k].data(); }
                char **dpp = dp.data();
                uint16_t *olp = ol.data();
                uint16_t stale2 = (uint16_t)(sr.chance(0.5) ? sr.below(4) : sr.below(65536));
                std::vector<uint8_t> pk(packed.begin(), packed.begin() + ref.size() + 8);
                uint8_t *pkp = pk.data();
                DIRTY();
                (void)DRV(drv_vss_strarr_unpack)(pkp, (uint16_t)ref.size(), n, dpp, stale2, olp);
                per_entry["entry.vss_string_array_unpack"]++;
                for (int k = 0; k < n; k++)
                    if (ol[k] != L[k] || memcmp(dst[k].data(), strs[k].data(), L[k]) != 0 || dst[k][L[k]] != 0x7e)
                        violation("read:Vss.<strarr>:unpack", strf("string %d of %d comes back with length %u (packed: %u; the destination's length field held %u before the call), or with other bytes",
                                                                   k, n, ol[k], L[k], stale2));
            }
            // counting the strings is a read, also when the length in the descriptor cuts the last string short (a truncated message):
            // the block lies in a read-only page of its own
            if (n >= 1 && ref.size() >= 3) {
                size_t pl = 4096;
                uint8_t *ro = (uint8_t *)mmap(nullptr, pl, PROT_READ | PROT_WRITE, MAP_PRIVATE | MAP_ANONYMOUS, -1, 0);
                if (ro != MAP_FAILED) {
                    memset(ro, 0, pl);
                    memcpy(ro, ref.data(), std::min(ref.size(), pl - 16));
                    mprotect(ro, pl, PROT_READ);
                    uint16_t cut = (uint16_t)(std::min(ref.size(), pl - 16) - 1 - sr.below(2));
                    DIRTY();
                    (void)DRV(drv_vss_strarr_count)(ro, cut);
                    per_entry["entry.vss_string_array_count_of_truncated_block"]++;
                    munmap(ro, pl);
                }
            }
            continue;
        }
        if (what == "vssenc") {
            if (std::string(f->name) != "Vss" || b.parent >= 0) continue;
            static const unsigned nb[] = {1, 1, 2, 2, 4, 4, 8, 8, 1, 4, 8};
            unsigned am = (unsigned)kv.u64("am") & 1, dt = (unsigned)kv.u64("dt");
            bool var = dt == 0xB || (dt >= 0x80 && dt <= 0x8B);  // (0x8B: a packed string array travels as one opaque block of bytes)
            if (dt > 10 && !var) continue;
            static const unsigned ves[] = {1, 1, 2, 2, 4, 4, 8, 8, 1, 4, 8, 1};
            size_t es = dt == 0xB ? 1 : var ? ves[dt - 0x80] : 0, alen = var ? kv.u64("alen") : 0;
            if (var && (alen % es || alen > 65535)) continue;
            size_t plen = am == 1 ? 0 : kv.u64("plen"), pathbytes = am == 1 ? 4 : 2 + plen, n = var ? 2 + alen : nb[dt];
            if (b.off + 12 + pathbytes + n > a.size - kGuard || plen > 65535) continue;
            uint32_t sid = (uint32_t)kv.u64("sid");
            uint64_t v = kv.u64("v");
            std::vector<char> path(plen + 1);
            Rng pr(kv.u64("pseed", 1));
            for (auto &ch : path) ch = (char)(0x21 + pr.below(0x5e));
            ev("vssenc", strf("b=%d am=%u dt=%u plen=%zu v=0x%llx", b.id, am, dt, plen, (unsigned long long)v));
            char *pp = path.data();
            std::vector<uint8_t> arr(alen + 8);
            for (auto &x : arr) x = (uint8_t)pr.next();
            uint8_t *ap = arr.data();
            DIRTY();
            DRV(drv_vss_encode)(pdu, am, dt, sid, pp, (uint16_t)plen, v, var ? ap : nullptr, (uint16_t)alen);
            { const BindField *fl = find_field(f, "ADDR_MODE"); if (fl) wire::set_bits(mpdu, fl->bit, fl->width, am); }
            { const BindField *fl = find_field(f, "VSS_DATATYPE"); if (fl) wire::set_bits(mpdu, fl->bit, fl->width, dt); }
            uint8_t *mp = mpdu + 12;
            if (am == 1) { for (int i = 0; i < 4; i++) mp[i] = (uint8_t)(sid >> (24 - 8 * i)); }
            else { mp[0] = (uint8_t)(plen >> 8); mp[1] = (uint8_t)plen; memcpy(mp + 2, path.data(), plen); }
            mp += pathbytes;
            if (var) {
                mp[0] = (uint8_t)(alen >> 8); mp[1] = (uint8_t)alen;
                for (size_t e = 0; e < alen / es; e++)
                    for (size_t i = 0; i < es; i++) mp[2 + e * es + i] = arr[e * es + (es - 1 - i)];  // each element in network byte order
            } else {
                for (size_t i = 0; i < n; i++) mp[i] = (uint8_t)(v >> (8 * (n - 1 - i)));  // big-endian scalar
            }
            per_entry["entry.vss_encode"]++;
            if (g_inc) per_entry[g_inc == 1 ? "entry.driver_behind_all_headers_az" : "entry.driver_behind_all_headers_za"]++;
            check_bytes(strf("Vss.<encode>:%s", am == 1 ? "static" : "interop"), strf("after encoding datatype 0x%x behind a %s path of %zu bytes", dt, am == 1 ? "static-id" : "interop", plen));
            b.has_last = false;
            b.vss_ok = true; b.vss_am = am; b.vss_dt = dt; b.vss_path.assign(path.begin(), path.begin() + plen); b.vss_arr.assign(arr.begin(), arr.begin() + alen); b.vss_v = v; b.vss_op = op_index;
            continue;
        }
        if (what == "vssdec") {
            // decoding is reading: the message (in read-only pages when the run has them) must not change, and what comes out is what went in
            if (std::string(f->name) != "Vss" || !b.vss_ok || b.vss_op != op_index - 1) continue;
            std::vector<char> pdst(b.vss_path.size() + 16, 0x7e);
            std::vector<uint8_t> adst(b.vss_arr.size() + 32, 0x7e);
            char *pp = pdst.data();
            uint8_t *ap = adst.data();
            ev("vssdec", strf("b=%d am=%u dt=0x%x", b.id, b.vss_am, b.vss_dt));
            buf_protect(a.raw, a.size, true);
            if (kv.u64("q", 0)) {  // a string or array is usually decoded twice: first without destination, to learn the length
                DIRTY();
                (void)DRV(drv_vss_decode)(pdu, pp, nullptr);
                per_entry["entry.vss_decode.length_query"]++;
                buf_protect(a.raw, a.size, false);
                check_bytes("Vss.<decode>:query", "after asking the decoder for the length only (null destination; a read)");
                if (adst[0] != 0x7e) violation("read:Vss.<decode>:query", "the length query wrote to a destination it was not given");
                buf_protect(a.raw, a.size, true);
            }
            DIRTY();
            (void)DRV(drv_vss_decode)(pdu, pp, ap);
            buf_protect(a.raw, a.size, false);
            per_entry["entry.vss_decode"]++;
            check_bytes("Vss.<decode>", "after decoding the message (a read)");
            if (b.vss_am == 0 && (memcmp(pdst.data(), b.vss_path.data(), b.vss_path.size()) || (uint8_t)pdst[b.vss_path.size()] != 0x7e))
                violation("read:Vss.<decode>:path", strf("the decoded interop path (%zu bytes) differs from the encoded one, or bytes behind it were written", b.vss_path.size()));
            bool var = b.vss_dt == 0xB || b.vss_dt >= 0x80;
            if (var && (memcmp(adst.data(), b.vss_arr.data(), b.vss_arr.size()) || adst[b.vss_arr.size()] != 0x7e))
                violation("read:Vss.<decode>:value", strf("the decoded string/array value (%zu bytes, datatype 0x%x) differs from the encoded one, or bytes behind it were written", b.vss_arr.size(), b.vss_dt));
            continue;
        }
        if (what == "build" && kv.str("kind") == "vsspad") {
            if (std::string(f->name) != "Vss" || b.parent >= 0) continue;
            size_t len = kv.u64("len"), pad = (4 - len % 4) % 4;
            if (len < f->spec_bytes || b.off + len + pad > a.size - kGuard) continue;
            ev("build", strf("b=%d Vss kind=vsspad len=%zu", b.id, len));
            DIRTY();
            DRV(drv_vss_pad)(pdu, (uint16_t)len);
            memset(mpdu + len, 0, pad);
            { const BindField *fl = find_field(f, "ACF_MSG_LENGTH"); if (fl) wire::set_bits(mpdu, fl->bit, fl->width, ((len + pad) / 4) & mask_w(fl->width)); }
            { const BindField *fl = find_field(f, "PAD"); if (fl) wire::set_bits(mpdu, fl->bit, fl->width, pad & mask_w(fl->width)); }
            per_entry["entry.build.vsspad"]++;
            check_bytes("Vss.<build>:pad", strf("after Avtp_Vss_Pad for a message of %zu bytes", len));
            b.has_last = false;
            continue;
        }
        if (what == "build") {
            std::string fmt = f->name, kind = kv.str("kind");
            bool brief = fmt == "CanBrief";
            if ((fmt != "Can" && !brief) || b.parent >= 0) continue;
            size_t hdr = f->spec_bytes, len = kv.u64("len");
            size_t pad = (4 - len % 4) % 4;
            if (len > 2028 || b.off + hdr + len + pad > a.size - kGuard) continue;
            uint32_t cid = (uint32_t)kv.u64("id");
            int variant = (int)kv.i64("variant", 0);  // (the FDF field holds the variant modulo its width of one bit)
            // -1 / -2: the enumerators AVTP_CAN_FD / AVTP_CAN_CLASSIC by name; whatever their numeric values, an FD message says FDF = 1
            int variant_bit = variant == -1 ? 1 : variant == -2 ? 0 : (variant & 1);
            if (variant >= 0) variant &= 0xff;
            std::vector<uint8_t> src(len + 1);
            Rng dr(kv.u64("dseed", 1));
            for (auto &x : src) x = (uint8_t)dr.next();
            ev("build", strf("b=%d %s kind=%s id=0x%x len=%zu variant=%d", b.id, f->name, kind.c_str(), cid, len, variant));
            auto mset = [&](const char *name, uint64_t v) { const BindField *fl = find_field(f, name); if (fl) wire::set_bits(mpdu, fl->bit, fl->width, v & mask_w(fl->width)); };
            bool inplace_model = false;
            auto m_payload = [&] { if (!inplace_model) memcpy(mpdu + hdr, src.data(), len); };
            auto m_finalize = [&] { memset(mpdu + hdr + len, 0, pad); mset("ACF_MSG_LENGTH", (hdr + len + pad) / 4); mset("PAD", pad); };
            int bk = (kind == "setpayload" && !brief) ? 0 : kind == "finalize" ? 1 : 2;
            uint8_t *srcp = (len == 0 && kv.u64("nullp", 0)) ? nullptr : src.data();
            bool fixed = kv.u64("fixed", 0) && srcp;
            // the payload lies exactly 4 GiB, 8 GiB or -4 GiB away from where it goes (pointer differences that are kept in 32 bits read 0);
            // possible where the neighbourhood is free, i.e. mostly in the runs that keep their buffers in pages of their own
            void *far_map = nullptr;
            size_t far_len = 0;
            if (kv.u64("far", 0) && srcp && len > 0 && bk != 1) {
                static const int64_t dist[] = {0, 1LL << 32, 2LL << 32, -(1LL << 32)};
                uintptr_t want = (uintptr_t)((int64_t)(uintptr_t)(pdu + hdr) + dist[kv.u64("far") & 3]);
                uintptr_t pg = want & ~(uintptr_t)4095;
                far_len = ((want + len + 4095) & ~(uintptr_t)4095) - pg;
                void *m = mmap((void *)pg, far_len, PROT_READ | PROT_WRITE, MAP_PRIVATE | MAP_ANONYMOUS | MAP_FIXED_NOREPLACE, -1, 0);
                if (m == (void *)pg) { far_map = m; memcpy((void *)want, src.data(), len); srcp = (uint8_t *)want; per_entry["entry.build.payload_a_multiple_of_4GiB_away"]++; }
                else { if (m != MAP_FAILED) munmap(m, far_len); per_entry[strf("entry.build.far_placement_not_possible_errno_%d", m == MAP_FAILED ? errno : 0)]++; }
            }
            // zero-copy use: the application has put the frame data where the message keeps it and passes that very address
            bool inplace = kv.u64("inplace", 0) && srcp && !fixed && len > 0 && bk != 1;
            if (inplace) { srcp = pdu + hdr; inplace_model = true; per_entry["entry.build.payload_in_place"]++; }
            DIRTY();
            if (bk == 0) { DRV(drv_can_setpayload)(pdu, srcp, (uint16_t)len); m_payload(); }
            else if (bk == 1) { if (brief) DRV(drv_canbrief_finalize)(pdu, (uint16_t)len); else DRV(drv_can_finalize)(pdu, (uint16_t)len); m_finalize(); }
            else {
                if (brief) DRV(drv_canbrief_setpayload)(pdu, cid, srcp, (uint16_t)len, variant);
                else if (!fixed || !DRV(drv_can_create_fixed)(pdu, cid, srcp, (uint16_t)len, variant)) DRV(drv_can_create)(pdu, cid, srcp, (uint16_t)len, variant);
                else per_entry["entry.build.create_fixed_size_object"]++;
                m_payload(); mset("EFF", cid > 0x7ff); mset("CAN_IDENTIFIER", cid); mset("FDF", (uint64_t)variant_bit); m_finalize();
                kind = "create";
            }
            if (far_map) munmap(far_map, far_len);
            per_entry["entry.build." + kind]++;
            check_bytes(strf("%s.<build>:%s", f->name, kind.c_str()), strf("after the %s builder (%s) with id 0x%x, %zu payload bytes, variant %d", f->name, kind.c_str(), cid, len, variant));
            // what the message says about its own payload must agree as well
            if (!brief && len >= 2 && kind == "create") {
                // the payload reached through the returned pointer and through the message in one optimised caller
                uint8_t b0 = mpdu[hdr], b1 = mpdu[hdr + 1];
                uint64_t tw = DRV(drv_can_payload_two_ways)(pdu, (uint8_t)(b0 ^ 0x5a), b0);
                // (leaves byte 0 as it was and byte 1 = b0 ^ 0x5a; restore byte 1 in the model's sense)
                if ((tw & 0xff) != b0 || ((tw >> 8) & 0xff) != (uint8_t)(b0 ^ 0x5a))
                    violation("read:Can.<payload-pointer>", strf("a caller that stores through the pointer Avtp_Can_GetPayload returns and through the message reads back 0x%02x / 0x%02x instead of 0x%02x / 0x%02x: "
                                                                 "what the header promises the compiler about that pointer is not true", (unsigned)(tw & 0xff), (unsigned)((tw >> 8) & 0xff), b0, (uint8_t)(b0 ^ 0x5a)));
                pdu[hdr + 1] = b1;
                per_entry["entry.can_payload_pointer_and_message"]++;
                check_bytes("Can.<payload-pointer>", "after storing through the payload pointer and through the message");
            }
            if (!brief && len <= 64 && (kind == "create" || kind == "finalize")) {
                uint64_t got = DRV(drv_can_payload_length)(pdu);
                if (got != len) violation(strf("read:%s.<payload-length>", f->name), strf("Avtp_Can_GetCanPayloadLength returned %llu after the %s builder ran with %zu payload bytes", (unsigned long long)got, kind.c_str(), len));
            }
            b.has_last = false;
            continue;
        }
        if (what == "again") {
            if (!b.has_last) continue;
            const BindField *fl = find_field(f, b.last_field);
            if (!fl) continue;
            ev("again", strf("b=%d %s.%s via=%s v=0x%llx", b.id, f->name, fl->name, b.last_via.c_str(), (unsigned long long)b.last_v));
            std::vector<uint8_t> before(a.mem, a.mem + a.size);
            do_write(f, fl, b.last_via, pdu, b.last_v);
            // the field may have been overwritten since through an overlapping view: repeat is judged against the model
            wire::set_bits(mpdu, fl->bit, fl->width, b.last_v & mask_w(fl->width));
            check_bytes(strf("%s.%s:again-%s", f->name, fl->name, b.last_via.c_str()), strf("after repeating the write of 0x%llx to %s.%s", (unsigned long long)b.last_v, f->name, fl->name));
            continue;
        }
        if (what == "commute") {
            const BindField *f1 = find_field(f, kv.str("f1")), *f2 = find_field(f, kv.str("f2"));
            std::string via1 = kv.str("via1"), via2 = kv.str("via2");
            if (!f1 || !f2 || f1 == f2) continue;
            auto ok = [&](const BindField *fl, const std::string &via) {
                return !((via == "gen" && (!f->setfield || fl->field_id < 0)) || (via == "ded" && !fl->set) || (via == "leg" && (!f->legacy_set || fl->field_id < 0)));
            };
            if (!ok(f1, via1) || !ok(f2, via2)) continue;
            uint64_t v1 = arg_value(f, f1, via1, kv.u64("v1")), v2 = arg_value(f, f2, via2, kv.u64("v2"));
            ev("commute", strf("b=%d %s.%s=0x%llx(%s) %s=0x%llx(%s)", b.id, f->name, f1->name, (unsigned long long)v1, via1.c_str(), f2->name, (unsigned long long)v2, via2.c_str()));
            uint8_t *c1 = (uint8_t *)malloc(a.size), *c2 = (uint8_t *)malloc(a.size);
            memcpy(c1, a.mem, a.size);
            memcpy(c2, a.mem, a.size);
            do_write(f, f1, via1, c1 + b.off, v1);
            do_write(f, f2, via2, c1 + b.off, v2);
            do_write(f, f2, via2, c2 + b.off, v2);
            do_write(f, f1, via1, c2 + b.off, v1);
            n_comm++;
            if (memcmp(c1, c2, a.size) != 0)
                violation(strf("commute:%s.%s,%s", f->name, f1->name, f2->name),
                          strf("writing %s.%s=0x%llx and %s=0x%llx in the two orders gives different bytes: %s", f->name, f1->name, (unsigned long long)v1, f2->name,
                               (unsigned long long)v2, first_diff(c1, c2, a.size, b.off, f->spec_bytes).c_str()));
            free(c1);
            free(c2);
            do_write(f, f1, via1, pdu, v1);
            do_write(f, f2, via2, pdu, v2);
            wire::set_bits(mpdu, f1->bit, f1->width, v1 & mask_w(f1->width));
            wire::set_bits(mpdu, f2->bit, f2->width, v2 & mask_w(f2->width));
            check_bytes(strf("%s.%s:%s", f->name, f2->name, via2.c_str()), strf("after writing %s.%s then %s", f->name, f1->name, f2->name));
            b.wr_seq[f1->name] = op_index; b.wr_seq[f2->name] = op_index;
            b.wr_task_seq[f1->name] = task_switches; b.wr_task_seq[f2->name] = task_switches;
            b.wr_via[f1->name] = via1; b.wr_via[f2->name] = via2;
            b.has_last = true; b.last_field = f2->name; b.last_via = via2; b.last_v = v2;
            continue;
        }
        if (what == "reloc") {
            // only the bytes survive: new address, old block and everything dead is overwritten with fresh garbage
            ev("reloc", strf("b=%d", b.id));
            uint8_t *nraw = buf_alloc(a.size);
            if (!nraw) continue;
            uint8_t *n = nraw + (kv.u64("align", 0) & 7);
            memcpy(n, a.mem, a.size);
            fill_garbage(a.mem, a.size, garbage);
            buf_free(a.raw, a.size);
            a.raw = nraw;
            a.mem = n;
            for (auto &x : bufs)
                if (x.second.alloc == b.alloc) x.second.last_reloc = op_index;
            continue;
        }
    }
    g_res.status = 0;
    g_res.digest = g_digest.h;
    g_res.events = g_events;
    g_res.nontrivial = pr_nontrivial > 0;
    g_res.counters["ops.set"] = n_set;
    g_res.counters["ops.get"] = n_get;
    g_res.counters["ops.init"] = n_init;
    g_res.counters["ops.commute"] = n_comm;
    g_res.counters["probe.cross_quadlet_field_written"] = pr_cross;
    g_res.counters["probe.value_wider_than_field"] = pr_wide;
    g_res.counters["probe.relocation_between_write_and_read"] = pr_reloc_rw;
    g_res.counters["probe.legacy_write_current_read"] = pr_leg_cur;
    g_res.counters["probe.task_switch_between_write_and_read"] = pr_switch_rw;
    g_res.counters["probe.acf_message_inside_control_pdu"] = pr_sub;
    g_res.counters["probe.second_view_of_same_header"] = pr_alias;
    g_res.counters["probe.same_quadlet_interference_read"] = pr_nontrivial;
    g_res.counters["task_switches"] = task_switches;
    { uint64_t ua = 0; for (auto &a : allocs) if (((uintptr_t)a.mem + kGuard) & 3) ua++; g_res.counters["probe.unaligned_placement"] = ua; }
    for (auto &p : per_entry) g_res.counters[p.first] = p.second;
    if (!bufs.empty()) g_res.counters[std::string("scen.") + bufs.begin()->second.f->name] = 1;
    sim::finish_run(g_res);
}

static sim::RunResult on_crash(const sim::CrashInfo &ci) {
    sim::RunResult r;
    std::string what;
    if (ci.kind == sim::CrashInfo::ASAN) what = strf("asan:%s%s%s", ci.san_kind.c_str(), ci.access.empty() ? "" : ":", ci.access.c_str());
    else if (ci.kind == sim::CrashInfo::UBSAN) what = "ubsan:" + ci.san_kind;
    else if (ci.kind == sim::CrashInfo::SIGNAL) what = strf("signal:%d", ci.sig);
    else { r.status = 2; r.sig = "harness"; r.detail = strf("child exit %d / timeout: ", ci.exit_code) + ci.raw.substr(0, 300); return r; }
    if (ci.repo_func.empty()) { r.status = 2; r.sig = "harness"; r.detail = "fault outside /repo code: " + ci.raw.substr(0, 600); return r; }
    r.status = 1;
    r.nontrivial = true;
    r.sig = strf("rec:%s:%s", what.c_str(), ci.repo_func.c_str());
    r.detail = strf("%s in %s() during: %s", what.c_str(), ci.repo_func.c_str(), ci.note.c_str());
    return r;
}

}  // namespace rec

int main(int argc, char **argv) {
    sim::Engine e;
    e.name = REC_ENGINE_NAME;
    e.property = "C05";
    e.gen = rec::gen;
    e.exec = rec::exec;
    e.on_crash = rec::on_crash;
    e.deletable = [](const std::string &l) { return l.compare(0, 2, "op") == 0; };
    e.rule = "one run = one seeded history: 1-4 caller tasks, 1-3 PDU buffers each (all 23 header formats, stratified by run index; ACF messages also laid out "
             "inside TSCF/NTSCF buffers), 3-300 operations (init, write, read through generic/dedicated/legacy entry points, repeat, two writes in both orders on clones, "
             "relocation, the ACF-CAN / CAN-brief message builders as compound writes) interleaved over the buffers, boundary-biased values; distinct = distinct event-log digest; non-trivial = some field is read after a later "
             "write to a different field of the same quadlet";
    e.probes = {"probe.cross_quadlet_field_written", "probe.value_wider_than_field", "probe.relocation_between_write_and_read", "probe.legacy_write_current_read",
                "probe.task_switch_between_write_and_read", "probe.acf_message_inside_control_pdu", "probe.second_view_of_same_header", "entry.set.gen", "entry.set.ded", "entry.set.leg",
                "entry.get.gen", "entry.get.ded", "entry.get.leg", "entry.init.cur", "entry.init.legacy", "entry.fused", "entry.set.constant", "entry.build.create", "entry.build.finalize", "entry.build.setpayload", "entry.build.vsspad", "entry.vss_encode", "entry.vss_decode", "value.derived",
                "probe.unaligned_placement"};
    e.real_components = {"libopen1722 + libopen1722custom objects built from /repo/src (working tree)", "call bindings generated from /repo/include at build time"};
    e.stub_components = {"callers (seeded histories)", "reference model: spec/fields.def + bit-at-a-time packer (spec/wire.h)"};
    e.assumptions = {"spec/fields.def transcribes IEEE 1722-2016 and acf-vss.md correctly", "PDUs are placed at every byte alignment; -fsanitize=alignment stays off (C15)",
                     "return codes of the legacy wrappers are not judged (C11/C12)"};
    e.quick_runs = 23000;
    e.thorough_runs = 1150000;
    e.quick_wall_cap = 150;
    e.thorough_wall_cap = 1500;
#ifdef REC_VARIANT_GCC
    // second build: library and bindings compiled by gcc -O2 (the repository's default toolchain), no sanitizer in the library code
    e.real_components = {"libopen1722 + libopen1722custom objects built from /repo/src by gcc -O2", "call bindings generated from /repo/include at build time, compiled by gcc -O2"};
    e.quick_runs = 7600;
    e.thorough_runs = 380000;
    e.quick_wall_cap = 60;
    e.thorough_wall_cap = 500;
#endif
#ifdef REC_VARIANT_O0
    // third build: no optimisation at all - what the repository's CMake produces when no build type is given. Locals live on the
    // stack, so a value that is used before it is written reads whatever the previous calls left there.
    e.real_components = {"libopen1722 + libopen1722custom objects built from /repo/src by gcc -O0", "call bindings generated from /repo/include at build time, compiled by gcc -O0"};
    e.quick_runs = 7600;
    e.thorough_runs = 380000;
    e.quick_wall_cap = 60;
    e.thorough_wall_cap = 500;
#endif
    return sim::driver_main(argc, argv, e);
}
