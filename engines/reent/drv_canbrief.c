#include "avtp/acf/CanBrief.h"
#include "drivers.h"
uint64_t drv_canbrief_setpayload(void *pdu, uint32_t id, uint8_t *payload, uint16_t len, int variant) {
    return (uint64_t)Avtp_CanBrief_SetPayload((Avtp_CanBrief_t *)pdu, id, payload, len, variant == -1 ? AVTP_CAN_FD : variant == -2 ? AVTP_CAN_CLASSIC : (Avtp_CanVariant_t)variant);
}
uint64_t drv_canbrief_finalize(void *pdu, uint16_t len) { return (uint64_t)Avtp_CanBrief_Finalize((Avtp_CanBrief_t *)pdu, len); }
