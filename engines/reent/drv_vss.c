#include <string.h>
#include "avtp/acf/custom/Vss.h"
#include "drivers.h"

static int is_var(unsigned dt) { return dt == VSS_STRING || (dt >= VSS_UINT8_ARRAY && dt <= VSS_STRING_ARRAY); }

uint64_t drv_vss_encode(void *msg, unsigned addr_mode, unsigned datatype, uint32_t static_id, char *path, uint16_t path_len,
                        uint64_t scalar_bits, void *arr, uint16_t arr_bytes) {
    Avtp_Vss_t *pdu = (Avtp_Vss_t *)msg;
    VssPath_t vp;
    VssData_t vd;
    VssDataUint8Array_t desc;  /* every array/string descriptor has the layout {uint16_t length; T *data;} */
    memset(&vp, 0, sizeof vp);
    memset(&vd, 0, sizeof vd);
    Avtp_Vss_SetAddrMode(pdu, (Vss_AddrMode_t)addr_mode);
    Avtp_Vss_SetDatatype(pdu, (Vss_Datatype_t)datatype);
    if (addr_mode == VSS_STATIC_ID_MODE) vp.vss_static_id_path = static_id;
    else { vp.vss_interop_path.path_length = path_len; vp.vss_interop_path.path = path; }
    Avtp_Vss_SetVssPath(pdu, &vp);
    if (is_var(datatype)) {
        desc.data_length = arr_bytes;
        desc.data = (uint8_t *)arr;
        vd.data_uint8_array = &desc;
    } else {
        memcpy(&vd, &scalar_bits, sizeof scalar_bits);
    }
    Avtp_Vss_SetVssData(pdu, &vd);
    return (uint64_t)AVTP_VSS_FIXED_HEADER_LEN + Avtp_Vss_CalcVssPathLength(pdu);
}

typedef struct {
    VssPath_t vp;
    VssData_t vd;
    VssDataUint8Array_t desc;
    unsigned addr_mode, datatype;
} InBlock;
typedef char inblock_fits[(sizeof(InBlock) <= DRV_VSS_INBLOCK_SIZE) ? 1 : -1];

void drv_vss_mkinput(void *inblock, unsigned addr_mode, unsigned datatype, uint32_t static_id, char *path, uint16_t path_len, uint64_t scalar_bits, void *arr,
                     uint16_t arr_bytes) {
    InBlock *in = (InBlock *)inblock;
    memset(in, 0, sizeof *in);
    in->addr_mode = addr_mode;
    in->datatype = datatype;
    if (addr_mode == VSS_STATIC_ID_MODE) in->vp.vss_static_id_path = static_id;
    else { in->vp.vss_interop_path.path_length = path_len; in->vp.vss_interop_path.path = path; }
    if (is_var(datatype)) {
        in->desc.data_length = arr_bytes;
        in->desc.data = (uint8_t *)arr;
        in->vd.data_uint8_array = &in->desc;
    } else {
        memcpy(&in->vd, &scalar_bits, sizeof scalar_bits);
    }
}

uint64_t drv_vss_encode_from(void *msg, void *inblock) {
    Avtp_Vss_t *pdu = (Avtp_Vss_t *)msg;
    InBlock *in = (InBlock *)inblock;
    Avtp_Vss_SetAddrMode(pdu, (Vss_AddrMode_t)in->addr_mode);
    Avtp_Vss_SetDatatype(pdu, (Vss_Datatype_t)in->datatype);
    Avtp_Vss_SetVssPath(pdu, &in->vp);
    Avtp_Vss_SetVssData(pdu, &in->vd);
    return (uint64_t)AVTP_VSS_FIXED_HEADER_LEN + Avtp_Vss_CalcVssPathLength(pdu);
}

uint64_t drv_vss_pad(void *msg, uint16_t len) {
    Avtp_Vss_Pad((Avtp_Vss_t *)msg, len);
    return ((uint64_t)Avtp_Vss_GetPad((Avtp_Vss_t *)msg) << 16) | Avtp_Vss_GetAcfMsgLength((Avtp_Vss_t *)msg);
}

uint64_t drv_vss_pathlen(void *msg) { return Avtp_Vss_CalcVssPathLength((Avtp_Vss_t *)msg); }

uint64_t drv_vss_decode(void *msg, char *path_dst, void *arr_dst) {
    Avtp_Vss_t *pdu = (Avtp_Vss_t *)msg;
    VssPath_t vp;
    VssData_t vd;
    VssDataUint8Array_t desc;
    uint64_t h = 1469598103934665603ULL, scalar = 0;
    unsigned dt = (unsigned)Avtp_Vss_GetDatatype(pdu);
    memset(&vp, 0, sizeof vp);
    memset(&vd, 0, sizeof vd);
    vp.vss_interop_path.path = path_dst;
    Avtp_Vss_GetVssPath(pdu, &vp);
    if (Avtp_Vss_GetAddrMode(pdu) == VSS_STATIC_ID_MODE) h = (h ^ vp.vss_static_id_path) * 1099511628211ULL;
    else h = (h ^ vp.vss_interop_path.path_length) * 1099511628211ULL;
    if (is_var(dt)) {
        desc.data_length = 0;
        desc.data = (uint8_t *)arr_dst;
        vd.data_uint8_array = &desc;
        Avtp_Vss_GetVssData(pdu, &vd);
        h = (h ^ desc.data_length) * 1099511628211ULL;
    } else {
        Avtp_Vss_GetVssData(pdu, &vd);
        switch (dt) {
        case VSS_UINT8: case VSS_INT8: case VSS_BOOL: scalar = vd.data_uint8; break;
        case VSS_UINT16: case VSS_INT16: scalar = vd.data_uint16; break;
        case VSS_UINT32: case VSS_INT32: case VSS_FLOAT: scalar = vd.data_uint32; break;
        case VSS_UINT64: case VSS_INT64: case VSS_DOUBLE: scalar = vd.data_uint64; break;
        default: scalar = 0; break;
        }
        h = (h ^ scalar) * 1099511628211ULL;
    }
    return h;
}

uint64_t drv_vss_strarr(uint8_t *packed, char **strs, const uint16_t *lens, int n, char **dst) {
    VssDataString_t in[48], out[48];
    VssDataString_t *inp[48], *outp[48];
    VssDataStringArray_t arr;
    uint64_t h = 1469598103934665603ULL;
    int i;
    if (n > 48) n = 48;
    for (i = 0; i < n; i++) {
        in[i].data_length = lens[i]; in[i].data = strs[i]; inp[i] = &in[i];
        out[i].data_length = 0; out[i].data = dst[i]; outp[i] = &out[i];
    }
    arr.data_length = (uint16_t)(0xA5A5 ^ n);  /* an output of the call: whatever the caller's descriptor held before does not matter */
    arr.data = packed;
    Avtp_Vss_SerializeStringArray(&arr, inp, (uint16_t)n);
    h = (h ^ arr.data_length) * 1099511628211ULL;
    h = (h ^ Avtp_Vss_GetVSSDataStringArrayLength(&arr)) * 1099511628211ULL;
    Avtp_Vss_DeserializeStringArray(&arr, outp, (uint16_t)n);
    for (i = 0; i < n; i++) h = (h ^ out[i].data_length) * 1099511628211ULL;
    return h;
}

/* pack only: the descriptor's length field holds `stale_len` when the call is made (it is an output); returns data_length << 16 | count */
uint64_t drv_vss_strarr_pack(uint8_t *packed, char **strs, const uint16_t *lens, int n, uint16_t stale_len) {
    VssDataString_t in[48];
    VssDataString_t *inp[48];
    VssDataStringArray_t arr;
    int i;
    if (n > 48) n = 48;
    for (i = 0; i < n; i++) { in[i].data_length = lens[i]; in[i].data = strs[i]; inp[i] = &in[i]; }
    arr.data_length = stale_len;
    arr.data = packed;
    Avtp_Vss_SerializeStringArray(&arr, inp, (uint16_t)n);
    return ((uint64_t)arr.data_length << 16) | Avtp_Vss_GetVSSDataStringArrayLength(&arr);
}

/* the length query of a packed string array whose descriptor says `len` bytes (a read: the block may lie in read-only memory) */
uint64_t drv_vss_strarr_count(uint8_t *packed, uint16_t len) {
    VssDataStringArray_t arr;
    arr.data_length = len;
    arr.data = packed;
    return Avtp_Vss_GetVSSDataStringArrayLength(&arr);
}

/* unpack only: every destination descriptor holds `stale_len` when the call is made (the lengths are outputs); out_lens receives them */
uint64_t drv_vss_strarr_unpack(uint8_t *packed, uint16_t len, int n, char **dst, uint16_t stale_len, uint16_t *out_lens) {
    VssDataString_t out[48];
    VssDataString_t *outp[48];
    VssDataStringArray_t arr;
    int i;
    if (n > 48) n = 48;
    for (i = 0; i < n; i++) { out[i].data_length = stale_len; out[i].data = dst[i]; outp[i] = &out[i]; }
    arr.data_length = len;
    arr.data = packed;
    Avtp_Vss_DeserializeStringArray(&arr, outp, (uint16_t)n);
    for (i = 0; i < n; i++) out_lens[i] = out[i].data_length;
    return 0;
}
