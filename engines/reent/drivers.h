/* Hand-written call drivers for the structured (non field-accessor) entry points. Each driver lives in
 * its own translation unit that includes only the public header it exercises. Temporaries that the API
 * requires (VssPath_t, VssData_t, array descriptors, string tables) are built on the caller's stack. */
#ifndef VERIF_DRIVERS_H
#define VERIF_DRIVERS_H
#include <stdint.h>
#ifdef __cplusplus
extern "C" {
#endif
/* ACF CAN */
uint64_t drv_can_create(void *pdu, uint32_t id, uint8_t *payload, uint16_t len, int variant);
uint64_t drv_can_create_fixed(void *pdu, uint32_t id, uint8_t *payload, uint16_t len, int variant);
uint64_t drv_can_setpayload(void *pdu, uint8_t *payload, uint16_t len);
uint64_t drv_can_finalize(void *pdu, uint16_t len);
uint64_t drv_can_payload_offset(void *pdu);
uint64_t drv_can_payload_length(void *pdu);
/* ACF CAN brief */
uint64_t drv_canbrief_setpayload(void *pdu, uint32_t id, uint8_t *payload, uint16_t len, int variant);
uint64_t drv_canbrief_finalize(void *pdu, uint16_t len);
/* ACF VSS */
uint64_t drv_vss_encode(void *msg, unsigned addr_mode, unsigned datatype, uint32_t static_id, char *path, uint16_t path_len,
                        uint64_t scalar_bits, void *arr, uint16_t arr_bytes);
uint64_t drv_vss_pad(void *msg, uint16_t len);
/* caller-provided input block {VssPath_t, VssData_t, array descriptor, modes}: filled by drv_vss_mkinput (no library call),
 * consumed by drv_vss_encode_from, which hands the library pointers INTO the block */
#define DRV_VSS_INBLOCK_SIZE 64
void drv_vss_mkinput(void *inblock, unsigned addr_mode, unsigned datatype, uint32_t static_id, char *path, uint16_t path_len, uint64_t scalar_bits, void *arr,
                     uint16_t arr_bytes);
uint64_t drv_vss_encode_from(void *msg, void *inblock);
/* decodes path and value of a well-formed message into caller-provided storage; returns a digest of what was reported */
uint64_t drv_vss_decode(void *msg, char *path_dst, void *arr_dst);
uint64_t drv_vss_pathlen(void *msg);
/* pack n strings, count them, unpack them again; returns a digest of the reported count and lengths */
uint64_t drv_vss_strarr(uint8_t *packed, char **strs, const uint16_t *lens, int n, char **dst);
uint64_t drv_vss_strarr_count(uint8_t *packed, uint16_t len);
uint64_t drv_vss_strarr_unpack(uint8_t *packed, uint16_t len, int n, char **dst, uint16_t stale_len, uint16_t *out_lens);
uint64_t drv_can_payload_two_ways(void *pdu, uint8_t first, uint8_t second);
uint64_t drv_generic_field(const uint8_t *desc, int n, uint8_t *pdu, int field, int set, uint64_t v);
uint64_t drv_vss_strarr_pack(uint8_t *packed, char **strs, const uint16_t *lens, int n, uint16_t stale_len);
#ifdef __cplusplus
}
#endif
#endif
