#include "avtp/acf/Can.h"
#include "drivers.h"
uint64_t drv_can_create(void *pdu, uint32_t id, uint8_t *payload, uint16_t len, int variant) {
    Avtp_Can_CreateAcfMessage((Avtp_Can_t *)pdu, id, payload, len, (Avtp_CanVariant_t)variant);
    return 0;
}
uint64_t drv_can_setpayload(void *pdu, uint8_t *payload, uint16_t len) { Avtp_Can_SetPayload((Avtp_Can_t *)pdu, payload, len); return 0; }
uint64_t drv_can_finalize(void *pdu, uint16_t len) { Avtp_Can_Finalize((Avtp_Can_t *)pdu, len); return 0; }
uint64_t drv_can_payload_offset(void *pdu) { return (uint64_t)(Avtp_Can_GetPayload((Avtp_Can_t *)pdu) - (uint8_t *)pdu); }
uint64_t drv_can_payload_length(void *pdu) { return Avtp_Can_GetCanPayloadLength((Avtp_Can_t *)pdu); }
