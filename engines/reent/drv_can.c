#include "avtp/acf/Can.h"
#include <string.h>
#include "drivers.h"
#include "avtp/Utils.h"
/* (variant -1 / -2: the enumerators AVTP_CAN_FD / AVTP_CAN_CLASSIC by name, as application code writes them) */
static Avtp_CanVariant_t named_variant(int variant) { return variant == -1 ? AVTP_CAN_FD : variant == -2 ? AVTP_CAN_CLASSIC : (Avtp_CanVariant_t)variant; }
uint64_t drv_can_create(void *pdu, uint32_t id, uint8_t *payload, uint16_t len, int variant) {
    Avtp_Can_CreateAcfMessage((Avtp_Can_t *)pdu, id, payload, len, named_variant(variant));
    return 0;
}
uint64_t drv_can_setpayload(void *pdu, uint8_t *payload, uint16_t len) { Avtp_Can_SetPayload((Avtp_Can_t *)pdu, payload, len); return 0; }
uint64_t drv_can_finalize(void *pdu, uint16_t len) { Avtp_Can_Finalize((Avtp_Can_t *)pdu, len); return 0; }
uint64_t drv_can_payload_offset(void *pdu) { return (uint64_t)(Avtp_Can_GetPayload((Avtp_Can_t *)pdu) - (uint8_t *)pdu); }
uint64_t drv_can_payload_length(void *pdu) { return Avtp_Can_GetCanPayloadLength((Avtp_Can_t *)pdu); }

/* The same builder, run on a message object whose size the compiler knows and that is exactly as large as the
 * message (header, payload, padding to the quadlet): the way an application with a fixed frame layout declares it.
 * Returns 0 if there is no such object for this payload length. */
#define DRV_FIXED(LEN) \
    case LEN: { \
        uint8_t tmp[AVTP_CAN_HEADER_LEN + ((LEN) + 3) / 4 * 4]; \
        memcpy(tmp, pdu, sizeof tmp); \
        Avtp_Can_CreateAcfMessage((Avtp_Can_t *)tmp, id, payload, LEN, (Avtp_CanVariant_t)variant); \
        memcpy(pdu, tmp, sizeof tmp); \
        return 1; \
    }
uint64_t drv_can_create_fixed(void *pdu, uint32_t id, uint8_t *payload, uint16_t len, int variant) {
    switch (len) {
        DRV_FIXED(0) DRV_FIXED(1) DRV_FIXED(3) DRV_FIXED(4) DRV_FIXED(5) DRV_FIXED(8) DRV_FIXED(12) DRV_FIXED(63) DRV_FIXED(64)
    default: return 0;
    }
}

/* the generic field codec with a descriptor table of the application's own (formats the library does not know: a header of up to 64
 * bytes); desc = n triples {quadlet, offset, bits} */
uint64_t drv_generic_field(const uint8_t *desc, int n, uint8_t *pdu, int field, int set, uint64_t v) {
    Avtp_FieldDescriptor_t tab[32];
    int i;
    if (n > 32) n = 32;
    for (i = 0; i < n; i++) { tab[i].quadlet = desc[3 * i]; tab[i].offset = desc[3 * i + 1]; tab[i].bits = desc[3 * i + 2]; }
    if (set) { Avtp_SetField(tab, (uint8_t)n, pdu, (uint8_t)field, v); return 0; }
    return Avtp_GetField(tab, (uint8_t)n, pdu, (uint8_t)field);
}

/* one optimised caller that reaches the payload both ways - through the pointer Avtp_Can_GetPayload returns and through the message
 * itself: the last store wins, whichever path made it (what the header tells the compiler about the returned pointer must be true) */
uint64_t drv_can_payload_two_ways(void *pdu, uint8_t first, uint8_t second) {
    Avtp_Can_t *m = (Avtp_Can_t *)pdu;
    uint8_t *p = Avtp_Can_GetPayload(m);
    uint64_t r;
    m->payload[0] = first;
    p[0] = second;
    r = m->payload[0];
    m->payload[1] = first;
    r |= (uint64_t)p[1] << 8;
    return r;  /* second | first << 8 */
}
