// reent engine (C16): library calls are re-entrant - no shared mutable state.
// 2-4 simulated caller tasks (fibers) execute seeded programs of library calls on their own objects
// (plus getters/decodes on one shared read-only PDU). The library is compiled with clang
// sanitizer-coverage trace-pc-guard + trace-loads + trace-stores: every basic-block edge and every
// memory access inside library code is (a) checked by an ownership monitor and (b) a preemption point
// of the seeded scheduler, so calls overlap *inside* each other. Oracles: ownership invariant on
// every access; results and final memory equal to the sequential execution of the same programs.
#include <iconv.h>
#include <uchar.h>
#include <pthread.h>
#include <linux/hw_breakpoint.h>
#include <linux/perf_event.h>
#include <sys/ioctl.h>
#include <sys/syscall.h>
#include <wchar.h>
#include <time.h>
#include <stdlib.h>
#include <locale.h>
#include <signal.h>
#include <sys/mman.h>
#include <time.h>
#include <unistd.h>
#include <algorithm>
#include <cstring>
#include <map>
#include <cerrno>
#include "../../bindings/bind.h"
#include "../../sim/core.h"
#include "../../sim/cov.h"
#include "../../sim/driver.h"
#include "../../sim/symtab.h"
#include "../../sim/task.h"
#include "drivers.h"

using sim::Rng;
using sim::strf;

extern "C" {
void *__real_memcpy(void *, const void *, size_t);
void *__real_memmove(void *, const void *, size_t);
void *__real_memset(void *, int, size_t);
}

#if defined(REENT_VARIANT_GCC)
#define REENT_ENGINE_NAME "reentg"
#elif defined(REENT_VARIANT_O2)
#define REENT_ENGINE_NAME "reento"
#else
#define REENT_ENGINE_NAME "reent"
#endif

namespace reent {

static const BindFormat *find_format(const std::string &n) {
    for (unsigned i = 0; i < bind_nformats; i++)
        if (n == bind_formats[i]->name) return bind_formats[i];
    return nullptr;
}
static const BindField *find_field(const BindFormat *f, const std::string &n) {
    for (unsigned i = 0; i < f->nfields; i++)
        if (n == f->fields[i].name) return &f->fields[i];
    return nullptr;
}

// ------------------------------------------------------------------ plan
struct Obj { int id, task; size_t size; uint64_t seed; bool shared; uint8_t *p; };
struct Call {
    int task;
    std::string fn, fmt, field, via;
    int obj = -1, obj2 = -1, obj3 = -1;
    std::vector<int> objs, objs2;  // string tables
    uint64_t a = 0, b = 0, c = 0, d = 0, v = 0;
};

// VSS value sizes
static unsigned vss_scalar_bytes(unsigned dt) {
    switch (dt) {
    case 0: case 1: case 8: return 1;
    case 2: case 3: return 2;
    case 4: case 5: case 9: return 4;
    case 6: case 7: case 0xA: return 8;
    default: return 0;
    }
}
static bool vss_is_var(unsigned dt) { return dt == 0xB || (dt >= 0x80 && dt <= 0x8B); }
static unsigned vss_elem(unsigned dt) {
    switch (dt) {
    case 0x82: case 0x83: return 2;
    case 0x84: case 0x85: case 0x89: return 4;
    case 0x86: case 0x87: case 0x8A: return 8;
    default: return 1;
    }
}

static std::string gen(const std::string &prop, uint64_t base, uint64_t idx, bool thorough) {
    uint64_t seed = sim::run_seed(base, ("reent/" + prop).c_str(), idx);
    Rng r(seed);
    std::string o;
    auto line = [&](const std::string &l) { o += l; o += '\n'; };
    int ntasks = (int)r.range(2, thorough ? 5 : 4);
    std::string sched;
    switch (idx % 6) {
    case 0: sched = "none"; break;
    case 1: sched = strf("p:%g", (double[]){0.001, 0.003, 0.01}[r.below(3)]); break;
    case 2: sched = strf("p:%g", (double[]){0.03, 0.1, 0.33}[r.below(3)]); break;
    case 3: sched = strf("pct:%d", (int)r.range(1, 5)); break;
    case 4: sched = strf("afterstore:%g", (double[]){0.05, 0.3, 1.0}[r.below(3)]); break;
    default: sched = strf("p:%g", 0.02); break;
    }
    line(strf("plan v1 engine=" REENT_ENGINE_NAME " prop=%s seed=0x%llx idx=%llu", prop.c_str(), (unsigned long long)seed, (unsigned long long)idx));
    // guard layout: every object ends (or starts) at a page boundary next to an inaccessible page and shared read-only objects are
    // mapped read-only while the callers run - the MMU then reports accesses that no instrumentation callback sees
#ifdef REENT_VARIANT_GCC
    bool guard = idx % 2 == 1;
#else
    bool guard = idx % 5 == 3;
#endif
    line(strf("cfg tasks=%d sched=%s sseed=0x%llx layout=%s env=%d hw=%d hws=%d thr=%d oom=%d loc=%d", ntasks, sched.c_str(), (unsigned long long)r.next(), guard ? "guard" : "packed", (int)((idx / 3) % 2), (int)(!guard && idx % 4 == 2), (int)(idx % 4 == 0), (int)(idx % 3 == 1), (int)(idx % 4 == 1), (int)(idx % 5 == 1)));
    int next_obj = 0;
    std::vector<std::string> objlines, calllines;  // (set-up calls come first in calllines)
    auto new_obj = [&](int task, size_t size, bool shared = false) {
        int id = next_obj++;
        objlines.push_back(strf("obj id=%d task=%d size=%zu seed=0x%llx gap=%d%s", id, task, size, (unsigned long long)r.next(), (int)r.below(4) * 4, shared ? " shared=1" : ""));
        return id;
    };
    // the shared read-only PDU: a header of a random format, or (half of the runs) a well-formed VSS message that is
    // built by set-up calls (task -1, before the callers start) and then decoded concurrently by all callers
    const BindFormat *shf = bind_formats[r.below(bind_nformats)];
    int shared_obj;
    bool shared_vss = r.coin();
    unsigned sh_am = 0, sh_dt = 0, sh_plen = 0, sh_abytes = 0, sh_total = 0;
    int sh_inblock = -1;
    if (shared_vss) {
        static const unsigned dts[] = {0, 1, 2, 3, 4, 5, 6, 7, 8, 9, 0xA, 0xB, 0x80, 0x81, 0x82, 0x83, 0x84, 0x85, 0x86, 0x87, 0x88, 0x89, 0x8A, 0x8B};
        shf = find_format("Vss");
        sh_am = (unsigned)r.below(2);
        sh_dt = dts[r.below(24)];
        sh_plen = sh_am == 1 ? 0 : (unsigned)r.range(0, 24);
        sh_abytes = vss_is_var(sh_dt) ? (unsigned)r.range(0, 6) * vss_elem(sh_dt) : 0;
        unsigned pathbytes = sh_am == 1 ? 4 : 2 + sh_plen, valbytes = vss_is_var(sh_dt) ? 2 + sh_abytes : vss_scalar_bytes(sh_dt);
        unsigned total = 12 + pathbytes + valbytes, pad = (4 - total % 4) % 4;
        shared_obj = new_obj(-1, total + pad, true);
        int psrc = sh_am == 1 ? -1 : new_obj(-1, sh_plen ? sh_plen : 1, true);
        int asrc = vss_is_var(sh_dt) ? new_obj(-1, sh_abytes ? sh_abytes : 1, true) : -1;
        calllines.push_back(strf("call t=-1 fn=init obj=%d fmt=Vss via=cur", shared_obj));
        calllines.push_back(strf("call t=-1 fn=vss_encode obj=%d obj2=%d obj3=%d a=%u b=0x%x c=%u d=%u v=0x%llx", shared_obj, psrc, asrc, sh_am, sh_dt, sh_plen, sh_abytes,
                                 (unsigned long long)r.next()));
        calllines.push_back(strf("call t=-1 fn=vss_pad obj=%d b=%u", shared_obj, total));
        // the same inputs (path, value, descriptors) are also shared read-only: callers encode them into messages of their own
        sh_inblock = new_obj(-1, 64, true);
        sh_total = total + pad;
        calllines.push_back(strf("call t=-1 fn=vss_mkinput obj=%d obj2=%d obj3=%d a=%u b=0x%x c=%u d=%u v=0x%llx", sh_inblock, psrc, asrc, sh_am, sh_dt, sh_plen, sh_abytes,
                                 (unsigned long long)r.next()));
    } else {
        shared_obj = new_obj(-1, shf->spec_bytes, true);
    }
    // per-task working set of field PDUs
    struct P { int obj; const BindFormat *f; };
    std::vector<std::vector<P>> pdus(ntasks);
    for (int t = 0; t < ntasks; t++) {
        int n = (int)r.range(1, 3);
        for (int k = 0; k < n; k++) {
            const BindFormat *f = (t == 0 && k == 0) ? bind_formats[(idx / 6) % bind_nformats] : bind_formats[r.below(bind_nformats)];
            pdus[t].push_back({new_obj(t, f->spec_bytes), f});
        }
    }
    // new API whose only pointer parameter is a PDU of a known format (none on the pinned tree): called on PDUs of that format that the
    // calling task owns (for VSS: on a message it has just encoded), const ones also on the shared PDU
    auto extrap_for = [&](int t, const char *fmt, int objid, bool shared_target, size_t objsize = 0) {
        if (!bind_nextras_p) return;
        std::vector<unsigned> cand;
        for (unsigned x = 0; x < bind_nextras_p; x++) {
            const BindExtraP &e = bind_extras_p[x];
            if (!e.fmt2 && !strcmp(e.fmt, fmt) && (!shared_target || e.is_const)) cand.push_back(x);
            // two PDUs: the well-formed one in hand is the second (source) argument, the first gets a fresh object large enough for a copy
            if (e.fmt2 && !strcmp(e.fmt2, fmt) && (!shared_target || e.is_const2)) cand.push_back(x);
        }
        if (cand.empty() || !r.chance(0.5)) return;
        auto xa = [&] { return (unsigned)(r.coin() ? r.below(4) : r.below(256)); };
        unsigned x = cand[r.below(cand.size())];
        if (bind_extras_p[x].fmt2) {
            const BindFormat *df = find_format(bind_extras_p[x].fmt);
            if (!df) return;
            int dst = new_obj(t, std::max<size_t>(df->spec_bytes, objsize) + 8);
            calllines.push_back(strf("call t=%d fn=extrap a=%u obj=%d obj2=%d c=%u d=%u", t, x, dst, objid, xa(), xa()));
        } else {
            calllines.push_back(strf("call t=%d fn=extrap a=%u obj=%d b=%u c=%u d=%u", t, x, objid, xa(), xa(), xa()));
        }
    };
    int ncalls = (int)r.range(10, thorough ? 150 : 60) * ntasks;
    for (int i = 0; i < ncalls; i++) {
        int t = (int)r.below(ntasks);
        if (bind_nextras && r.chance(0.08)) {  // new pointer-free API (none on the pinned tree)
            // (arguments: small values, and any 8-bit code - the codes of the formats are 8 bits wide and not all of them are defined)
            auto xa = [&] { return (unsigned)(r.coin() ? r.below(4) : r.below(256)); };
            calllines.push_back(strf("call t=%d fn=extra a=%u b=%u c=%u d=%u", t, (unsigned)r.below(bind_nextras), xa(), xa(), xa()));
            continue;
        }
        unsigned k = (unsigned)r.below(100);
        if (k < 62) {  // field accessor on an own PDU
            P &p = pdus[t][r.below(pdus[t].size())];
            const BindFormat *f = p.f;
            const BindField *fl = &f->fields[r.below(f->nfields)];
            unsigned kk = (unsigned)r.below(10);
            if (kk == 0 && (f->init || f->legacy_init)) {
                const char *via = (f->legacy_init && (!f->init || r.coin())) ? "legacy" : "cur";
                if (f->legacy_init2 && r.coin()) via = "legacy2";
                calllines.push_back(strf("call t=%d fn=init obj=%d fmt=%s via=%s v=0x%llx", t, p.obj, f->name, via, (unsigned long long)r.below(256)));
            } else if (kk < 6) {
                std::vector<const char *> v;
                if (fl->field_id >= 0 && f->setfield) v.push_back("gen");
                if (fl->set) { v.push_back("ded"); v.push_back("ded"); }
                if (f->legacy_set && fl->field_id >= 0) v.push_back("leg");
                if (v.empty()) continue;
                calllines.push_back(strf("call t=%d fn=set obj=%d fmt=%s f=%s via=%s v=0x%llx", t, p.obj, f->name, fl->name, v[r.below(v.size())],
                                         (unsigned long long)(r.chance(0.3) ? ~0ULL : r.next() >> r.below(64))));
            } else {
                std::vector<const char *> v;
                if (fl->field_id >= 0 && f->getfield) v.push_back("gen");
                if (fl->get) { v.push_back("ded"); v.push_back("ded"); }
                if (f->legacy_get && fl->field_id >= 0) v.push_back("leg");
                if (v.empty()) continue;
                calllines.push_back(strf("call t=%d fn=get obj=%d fmt=%s f=%s via=%s", t, p.obj, f->name, fl->name, v[r.below(v.size())]));
            }
            if (bind_nextras_p && strcmp(f->name, "Vss") && strcmp(f->name, "Can") && strcmp(f->name, "CanBrief")) extrap_for(t, f->name, p.obj, false, f->spec_bytes);
        } else if (k < 65) {  // calls with invalid arguments (rejected without effect on the unchanged tree): null PDU, field id out of range, null result
            P &p = pdus[t][r.below(pdus[t].size())];
            static const char *subs[] = {"getfield_max", "setfield_max", "getfield_ff", "setfield_ff", "lget_max", "lset_max", "lget_nullval", "get_nullpdu", "set_nullpdu",
                                         "init_nullpdu", "linit_nullpdu", "lget_nullpdu", "lset_nullpdu"};
            calllines.push_back(strf("call t=%d fn=bad obj=%d fmt=%s f=%s via=%s v=0x%llx", t, p.obj, p.f->name, p.f->fields[r.below(p.f->nfields)].name, subs[r.below(13)],
                                     (unsigned long long)r.next()));
        } else if (k < 74) {  // read-only call on the shared PDU
            if (shared_vss && r.chance(0.4)) {  // encode the shared read-only inputs into an own message
                int msg = new_obj(t, sh_total);
                calllines.push_back(strf("call t=%d fn=init obj=%d fmt=Vss via=cur", t, msg));
                calllines.push_back(strf("call t=%d fn=vss_encode_from obj=%d obj2=%d", t, msg, sh_inblock));
                continue;
            }
            if (shared_vss && r.coin()) {
                int pdst = sh_am == 1 ? -1 : new_obj(t, sh_plen ? sh_plen : 1);
                int adst = vss_is_var(sh_dt) ? new_obj(t, sh_abytes ? sh_abytes : 1) : -1;
                calllines.push_back(strf("call t=%d fn=vss_decode obj=%d obj2=%d obj3=%d", t, shared_obj, pdst, adst));
                if (r.coin()) calllines.push_back(strf("call t=%d fn=vss_pathlen obj=%d", t, shared_obj));
                continue;
            }
            const BindField *fl = &shf->fields[r.below(shf->nfields)];
            std::vector<const char *> v;
            if (fl->field_id >= 0 && shf->getfield) v.push_back("gen");
            if (fl->get) v.push_back("ded");
            if (shf->legacy_get && fl->field_id >= 0) v.push_back("leg");
            if (v.empty()) continue;
            calllines.push_back(strf("call t=%d fn=get obj=%d fmt=%s f=%s via=%s", t, shared_obj, shf->name, fl->name, v[r.below(v.size())]));
        } else if (k < 84) {  // ACF CAN builders
            unsigned len = (unsigned)(r.chance(0.7) ? r.below(9) : r.chance(0.85) ? r.below(65) : r.range(65, 300));  // the builders take any 16-bit length
            unsigned pad = (4 - len % 4) % 4;
            bool brief = r.chance(0.35);
            int pdu = new_obj(t, (brief ? 8 : 16) + len + pad);
            int pay = new_obj(t, len ? len : 1);
            uint32_t id = (uint32_t)(r.coin() ? r.below(0x800) : r.below(0x20000000));
            if (brief) {
                calllines.push_back(strf("call t=%d fn=canbrief_setpayload obj=%d obj2=%d a=0x%x b=%u c=%d", t, pdu, pay, id, len, (int)r.below(2)));
                if (r.coin()) calllines.push_back(strf("call t=%d fn=canbrief_finalize obj=%d b=%u", t, pdu, len));
            } else {
                switch (r.below(3)) {
                case 0: calllines.push_back(strf("call t=%d fn=can_create obj=%d obj2=%d a=0x%x b=%u c=%d", t, pdu, pay, id, len, (int)r.below(2))); break;
                default:
                    calllines.push_back(strf("call t=%d fn=init obj=%d fmt=Can via=cur", t, pdu));
                    calllines.push_back(strf("call t=%d fn=can_setpayload obj=%d obj2=%d b=%u", t, pdu, pay, len));
                    calllines.push_back(strf("call t=%d fn=can_finalize obj=%d b=%u", t, pdu, len));
                    break;
                }
                calllines.push_back(strf("call t=%d fn=can_paylen obj=%d", t, pdu));
                if (bind_nextras_p) extrap_for(t, "Can", pdu, false, 16 + len + pad);
                if (r.coin()) calllines.push_back(strf("call t=%d fn=can_payoff obj=%d", t, pdu));
            }
        } else if (k < 96) {  // VSS encode (+ pad) + decode
            unsigned am = (unsigned)r.below(2);
            static const unsigned dts[] = {0, 1, 2, 3, 4, 5, 6, 7, 8, 9, 0xA, 0xB, 0x80, 0x81, 0x82, 0x83, 0x84, 0x85, 0x86, 0x87, 0x88, 0x89, 0x8A, 0x8B};
            unsigned dt = dts[r.below(24)];
            bool big = r.chance(0.1);
            unsigned plen = am == 1 ? 0 : (unsigned)(big ? r.range(25, 400) : r.range(0, 24));
            unsigned pathbytes = am == 1 ? 4 : 2 + plen;
            // (big arrays go up to what a 2044-byte message can carry)
            unsigned abytes = vss_is_var(dt) ? (unsigned)(big ? (r.coin() ? r.range(7, 120) : r.range(120, std::max<unsigned>(121, (1990 - pathbytes) / vss_elem(dt)))) : r.range(0, 6)) * vss_elem(dt) : 0;
            unsigned valbytes = vss_is_var(dt) ? 2 + abytes : vss_scalar_bytes(dt);
            unsigned total = 12 + pathbytes + valbytes, pad = (4 - total % 4) % 4;
            bool dopad = r.chance(0.6);
            int msg = new_obj(t, total + (dopad ? pad : 0));
            int path = am == 1 ? -1 : new_obj(t, plen ? plen : 1);
            int arr = vss_is_var(dt) ? new_obj(t, abytes ? abytes : 1) : -1;
            calllines.push_back(strf("call t=%d fn=init obj=%d fmt=Vss via=cur", t, msg));
            calllines.push_back(strf("call t=%d fn=vss_encode obj=%d obj2=%d obj3=%d a=%u b=0x%x c=%u d=%u v=0x%llx", t, msg, path, arr, am, dt, plen, abytes,
                                     (unsigned long long)r.next()));
            if (dopad) calllines.push_back(strf("call t=%d fn=vss_pad obj=%d b=%u", t, msg, total));
            if (r.chance(0.8)) {
                int pdst = am == 1 ? -1 : new_obj(t, plen ? plen : 1);
                int adst = vss_is_var(dt) ? new_obj(t, abytes ? abytes : 1) : -1;
                calllines.push_back(strf("call t=%d fn=vss_decode obj=%d obj2=%d obj3=%d", t, msg, pdst, adst));
                calllines.push_back(strf("call t=%d fn=vss_pathlen obj=%d", t, msg));
            }
            if (bind_nextras_p) extrap_for(t, "Vss", msg, false);
            if (bind_nextras_p && shared_vss) extrap_for(t, "Vss", shared_obj, true);
        } else if (k < 97) {  // reserved addressing mode or datatype: encode/decode must leave everything untouched
            int msg = new_obj(t, 16 + (int)r.below(3) * 4);
            calllines.push_back(strf("call t=%d fn=init obj=%d fmt=Vss via=cur", t, msg));
            calllines.push_back(strf("call t=%d fn=vss_reserved obj=%d a=%u b=0x%x", t, msg, (unsigned)(r.coin() ? r.range(2, 3) : r.below(2)), (unsigned)(r.coin() ? r.range(0xC, 0x7F) : r.range(0x8C, 0xFF))));
        } else {  // VSS string arrays
            int n = (int)(r.chance(0.12) ? r.range(9, 48) : r.range(0, 8));  // (tables with dozens of entries too)
            std::string lens, srcs, dsts;
            size_t total = 0;
            bool longs = n <= 8 && r.chance(0.15);
            for (int s = 0; s < n; s++) {
                unsigned l = (unsigned)(longs ? r.range(0, 200) : r.range(0, 12));
                total += 2 + l;
                int so = new_obj(t, l ? l : 1), dob = new_obj(t, l ? l : 1);
                lens += strf("%s%u", s ? "," : "", l);
                srcs += strf("%s%d", s ? "," : "", so);
                dsts += strf("%s%d", s ? "," : "", dob);
            }
            int packed = new_obj(t, total ? total : 1);
            calllines.push_back(strf("call t=%d fn=vss_strarr obj=%d n=%d lens=%s srcs=%s dsts=%s", t, packed, n, lens.empty() ? "-" : lens.c_str(),
                                     srcs.empty() ? "-" : srcs.c_str(), dsts.empty() ? "-" : dsts.c_str()));
        }
    }
    for (auto &l : objlines) line(l);
    for (auto &l : calllines) line(l);
    return o;
}

// ------------------------------------------------------------------ execution state
static uint8_t *const kArena = (uint8_t *)0x7d0000000000ULL;
static constexpr size_t kArenaSize = 4 << 20;  // packed layout compares all of it; the guard layout only uses what its objects need
static constexpr size_t kPage = 4096;

struct Region { uintptr_t lo, hi; bool writable; };
static std::vector<Region> g_exe_regions;  // mappings of our own binary

struct World {
    sim::Tasks tasks;
    std::vector<Obj> objs;                 // sorted by address (allocation order)
    std::map<int, int> obj_index;          // id -> index
    std::vector<std::vector<Call>> prog;   // per task
    std::map<int, size_t> inblock_ok;       // shared input blocks prepared by set-up -> bytes an encode from them produces
    std::vector<Call> setup;               // executed before the callers start (builds the shared read-only objects)
    std::vector<std::vector<uint64_t>> results;
    // scheduling
    std::string policy = "none";
    double p = 0;
    int pct_changes = 0;
    Rng rng{1};
    uint64_t points = 0, preemptions = 0, max_preempt = 50000;
    std::vector<uint64_t> pct_points;
    std::vector<uint64_t> prio;
    bool interleave = false;
    bool last_was_store = false;
    // monitoring
    std::vector<char> in_call;             // per task: inside a library call right now
    std::vector<std::vector<std::string>> result_fn;
    std::vector<uintptr_t> last_load;      // per task: address of its last load
    std::vector<bool> in_shared_call;
    uint64_t pr_badargs = 0, pr_inside = 0, pr_rmw = 0, pr_shared = 0, pr_static_load = 0, pr_unknown_load = 0, loads = 0, stores = 0, calls = 0;
    sim::Digest digest;
    bool guard_layout = false;
    uint64_t call_steps[8] = {0};           // basic blocks executed by the library call in progress, per task
    unsigned suspended_in_call() { unsigned n = 0; for (size_t i = 0; i < in_call.size(); i++) if (in_call[i] && (!tasks.cur() || (int)i != tasks.cur()->id)) n++; return n; }
    char cur_fn[64] = "";                 // plan-level name of the library call in progress (for crash attribution)
    size_t arena_used = kArenaSize;          // bytes of the arena that hold objects (rounded up to pages)
    struct HeapObj { uintptr_t p; size_t n; int task; };
    std::vector<HeapObj> heap;              // blocks allocated by library code during a call: owned by the calling task until freed
    uint64_t pr_heap = 0, pr_extra = 0, pr_env = 0, pr_libc_state = 0, pr_libc_dest = 0;
    std::map<uintptr_t, int> handle_user;  // opaque libc handle -> the task whose call used it first
    bool env_on = false;                    // every environment variable library code asks for reads "1" in this run
    // hardware write watchpoints (debug registers, through perf_event_open) on the bytes right before and right behind the object of
    // the running call: they see every store, whoever makes it - inline assembly, libc, a function opted out of instrumentation - and
    // also a store that writes back the value that was there (a read-modify-write of a neighbour loses the neighbour's concurrent update)
    bool hw = false;
    bool hw_static = false;
    bool on_worker_thread = false;
    bool oom = false;             // allocations made by library code fail half of the time
    uint64_t oom_seed = 0;
    uint32_t alloc_count[8] = {0};
    uint64_t pr_oom = 0;
    int hw_fd[4] = {-1, -1, -1, -1};  // [0],[1]: behind / before the principal object; [2],[3]: the same for the object the call writes its result to
    bool hw_failed = false;
    struct HwWatch { uintptr_t addr[4] = {0, 0, 0, 0}; unsigned len[4] = {0, 0, 0, 0}; int obj = -1, obj_dst = -1; };
    HwWatch hw_task[8];
    uint64_t pr_hw_armed = 0;
    uint64_t events = 0;
    uint64_t static_bytes = 0;
    bool verbose = false;
};
static World *W = nullptr;
static sim::RunResult g_res;

static void ev(const char *what, uint64_t a, uint64_t b, uint64_t c) {
    W->digest.adds(what);
    W->digest.add64(a); W->digest.add64(b); W->digest.add64(c);
    W->events++;
    if (sim::g_shm) { sim::g_shm->digest = W->digest.h; sim::g_shm->events = W->events; }
    if (W->verbose) printf("%6llu %-10s a=%llu b=0x%llx c=%llu\n", (unsigned long long)W->events, what, (unsigned long long)a, (unsigned long long)b, (unsigned long long)c);
}

[[noreturn]] static void violation(const std::string &sig, const std::string &detail) {
    g_res.status = 1;
    g_res.sig = "reent:" + sig;
    g_res.detail = detail;
    g_res.digest = W->digest.h;
    g_res.events = W->events;
    g_res.nontrivial = true;
    sim::finish_run(g_res);
}

static std::string describe_addr(uintptr_t a) {
    World &w = *W;
    if (a >= (uintptr_t)kArena && a < (uintptr_t)kArena + kArenaSize) {
        for (auto &o : w.objs)
            if (a >= (uintptr_t)o.p && a < (uintptr_t)o.p + o.size)
                return strf("byte %zu of object %d (%s)", (size_t)(a - (uintptr_t)o.p), o.id, o.shared ? "shared read-only PDU" : strf("owned by task %d", o.task).c_str());
        // nearest preceding object
        const Obj *prev = nullptr;
        for (auto &o : w.objs) if ((uintptr_t)o.p <= a) prev = &o;
        if (prev) return strf("unowned arena byte %zu past the end of object %d (task %d, %zu bytes)", (size_t)(a - ((uintptr_t)prev->p + prev->size)), prev->id, prev->task, prev->size);
        return "unowned arena byte";
    }
    for (auto *t : w.tasks.all())
        if (a >= (uintptr_t)t->stack && a < (uintptr_t)t->stack + t->stack_size) return strf("stack of task %d", t->id);
    for (auto &r : g_exe_regions)
        if (a >= r.lo && a < r.hi) return r.writable ? "writable static storage of the program (.data/.bss)" : "read-only section";
    return "memory outside every known object (heap/other)";
}

// ownership check of one access by the running task
static void check_access(uintptr_t a, size_t n, bool store, uintptr_t pc) {
    World &w = *W;
    sim::Task *t = w.tasks.cur();
    if (!t) return;
    if (store) w.stores++; else w.loads++;
    // own stack
    if (a >= (uintptr_t)t->stack && a + n <= (uintptr_t)t->stack + t->stack_size) return;
    if (a >= (uintptr_t)kArena && a < (uintptr_t)kArena + kArenaSize) {
        // binary search over objects sorted by address
        size_t lo = 0, hi = w.objs.size();
        while (lo < hi) {
            size_t mid = (lo + hi) / 2;
            if ((uintptr_t)w.objs[mid].p + w.objs[mid].size <= a) lo = mid + 1; else hi = mid;
        }
        if (lo < w.objs.size()) {
            const Obj &o = w.objs[lo];
            if (a >= (uintptr_t)o.p && a + n <= (uintptr_t)o.p + o.size) {
                if (o.task == t->id) return;
                if (o.shared && !store) return;
            }
        }
        std::string fn = sim::g_symtab.func(pc);
        violation(strf("shared-state:%s:%s", store ? "store" : "load", fn.c_str()),
                  strf("%s() running for task %d %s %zu byte(s) at %s, which is not an object passed to it", fn.c_str(), t->id, store ? "wrote" : "read", n,
                       describe_addr(a).c_str()));
    }
    for (auto *x : w.tasks.all())
        if (x != t && a >= (uintptr_t)x->stack && a < (uintptr_t)x->stack + x->stack_size) {
            std::string fn = sim::g_symtab.func(pc);
            violation(strf("shared-state:%s:%s", store ? "store" : "load", fn.c_str()), strf("%s() running for task %d accessed the stack of task %d", fn.c_str(), t->id, x->id));
        }
    for (auto &r : g_exe_regions)
        if (a >= r.lo && a < r.hi) {
            if (!r.writable && !store) return;  // immutable tables
            if (store) {
                std::string fn = sim::g_symtab.func(pc);
                violation(strf("shared-state:store:%s", fn.c_str()),
                          strf("%s() running for task %d wrote %zu byte(s) to static storage at %p (%s)", fn.c_str(), t->id, n, (void *)a, sim::g_symtab.func(a).c_str()));
            }
            w.pr_static_load++;  // a table that merely lost its const: no conflict as long as nobody writes it
            return;
        }
    for (auto &h : w.heap)
        if (a >= h.p && a + n <= h.p + h.n) {
            if (h.task == t->id) return;  // a temporary the call allocated for itself
            std::string fn = sim::g_symtab.func(pc);
            violation(strf("shared-state:%s:%s", store ? "store" : "load", fn.c_str()),
                      strf("%s() running for task %d %s %zu byte(s) of a heap block that library code allocated while running for task %d", fn.c_str(), t->id,
                           store ? "wrote" : "read", n, h.task));
        }
    if (store) {
        std::string fn = sim::g_symtab.func(pc);
        violation(strf("shared-state:store:%s", fn.c_str()), strf("%s() running for task %d wrote %zu byte(s) at %p: %s", fn.c_str(), t->id, n, (void *)a, describe_addr(a).c_str()));
    }
    w.pr_unknown_load++;
}

static bool owned_by(int tid, uintptr_t a) {
    World &w = *W;
    size_t lo = 0, hi = w.objs.size();
    while (lo < hi) {
        size_t mid = (lo + hi) / 2;
        if ((uintptr_t)w.objs[mid].p + w.objs[mid].size <= a) lo = mid + 1; else hi = mid;
    }
    return lo < w.objs.size() && a >= (uintptr_t)w.objs[lo].p && w.objs[lo].task == tid && !w.objs[lo].shared;
}
static void hw_program(int k, uintptr_t addr, unsigned len) {
    World &w = *W;
    if (w.hw_failed) return;
    struct perf_event_attr a;
    memset(&a, 0, sizeof a);
    a.type = PERF_TYPE_BREAKPOINT;
    a.size = sizeof a;
    a.bp_type = HW_BREAKPOINT_W;
    a.bp_addr = addr;
    a.bp_len = len;
    a.sample_period = 1;
    a.exclude_kernel = 1;
    a.exclude_hv = 1;
    a.disabled = 1;
    a.sigtrap = 1;
    a.remove_on_exec = 1;
    if (w.hw_fd[k] < 0) {
        w.hw_fd[k] = (int)syscall(SYS_perf_event_open, &a, 0, -1, -1, 0);
        if (w.hw_fd[k] < 0) { w.hw_failed = true; return; }  // no debug registers here: the run goes on without this oracle
    } else if (ioctl(w.hw_fd[k], PERF_EVENT_IOC_MODIFY_ATTRIBUTES, &a) != 0) { w.hw_failed = true; return; }
    ioctl(w.hw_fd[k], PERF_EVENT_IOC_ENABLE, 0);
}
static void hw_off() {
    World &w = *W;
    for (int k = 0; k < 4; k++) if (w.hw_fd[k] >= 0) ioctl(w.hw_fd[k], PERF_EVENT_IOC_DISABLE, 0);
}
static void hw_on(int tid) {
    World &w = *W;
    const World::HwWatch &h = w.hw_task[tid & 7];
    for (int k = 0; k < 4; k++) if (h.len[k]) hw_program(k, h.addr[k], h.len[k]);
}
// called when task `tid` enters a library call whose principal object is o: watch what lies next to o, unless it is the task's own
static void hw_enter(int tid, const Obj &o, const Obj *dst) {
    World &w = *W;
    if (!w.hw || w.hw_failed || tid < 0) return;
    World::HwWatch &h = w.hw_task[tid & 7];
    h = World::HwWatch();
    h.obj = o.id;
    h.obj_dst = dst ? dst->id : -1;
    auto lowbit = [](uintptr_t x) { unsigned l = 8; while (l > 1 && (x & (l - 1))) l >>= 1; return l; };
    auto any_owned = [&](uintptr_t a, unsigned n) { for (unsigned i = 0; i < n; i++) if (owned_by(tid, a + i)) return true; return false; };
    auto around = [&](const Obj &x, int k) {
        uintptr_t start = (uintptr_t)x.p, end = start + x.size;
        unsigned la = lowbit(end);
        while (la >= 1 && any_owned(end, la)) la >>= 1;  // (the window shrinks until none of its bytes belongs to the caller itself)
        if (la) { h.addr[k] = end; h.len[k] = la; }
        unsigned lb = lowbit(start);
        while (lb >= 1 && any_owned(start - lb, lb)) lb >>= 1;
        if (lb) { h.addr[k + 1] = start - lb; h.len[k + 1] = lb; }
    };
    around(o, 0);
    if (dst && dst != &o && !dst->shared) around(*dst, 2);
    w.pr_hw_armed++;
    hw_on(tid);
}
// In a quarter of the runs that do not watch objects, the debug registers guard the first 8 bytes of the library's .bss and .data instead
// (on the unchanged tree there is none beyond the link-time markers): a store there that no callback announced - inline assembly that
// increments and decrements a counter, say - changes nothing in the end and is invisible to every comparison.
static void hws_enter(int tid) {
    World &w = *W;
    if (!w.hw_static || w.hw_failed || tid < 0) return;
    World::HwWatch &h = w.hw_task[tid & 7];
    h = World::HwWatch();
    h.obj = -2;
    auto b = sim::g_symtab.repo_bss(), d = sim::g_symtab.repo_data();
    int k = 0;
    if (b.hi > b.lo) { h.addr[k] = b.lo & ~(uint64_t)7; h.len[k] = 8; k++; }
    if (d.hi > d.lo) { h.addr[k] = d.lo & ~(uint64_t)7; h.len[k] = 8; k++; }
    if (!k) return;
    w.pr_hw_armed++;
    hw_on(tid);
}
static void hw_leave(int tid) {
    World &w = *W;
    if ((!w.hw && !w.hw_static) || tid < 0) return;
    hw_off();
    w.hw_task[tid & 7] = World::HwWatch();
}

static void preempt_point(bool is_store, uintptr_t addr) {
    World &w = *W;
    sim::Task *t = w.tasks.cur();
    bool arena_addr = addr >= (uintptr_t)kArena && addr < (uintptr_t)kArena + kArenaSize;
    if (!t || !w.interleave) { if (t && !is_store && arena_addr) w.last_load[t->id] = addr; return; }
    w.points++;
    bool sw = false;
    if (w.policy == "p") sw = w.rng.chance(w.p);
    else if (w.policy == "afterstore") { sw = w.last_was_store && w.rng.chance(w.p); }
    else if (w.policy == "pct") {
        while (!w.pct_points.empty() && w.points >= w.pct_points.back()) { w.pct_points.pop_back(); w.prio[t->id] = w.rng.below(1000); sw = true; }
    }
    w.last_was_store = is_store;
    if (sw && w.preemptions < w.max_preempt) {
        w.preemptions++;
        w.pr_inside++;
        if (is_store && arena_addr && w.last_load[t->id] == addr) w.pr_rmw++;  // between the load and the store of one read-modify-write
        if (w.in_shared_call[t->id]) w.pr_shared++;
        w.digest.add64(0x5157ULL ^ (w.points << 8) ^ (uint64_t)t->id);
        if (w.hw) hw_off();      // (the neighbours are somebody's own objects while that somebody runs)
        w.tasks.yield();
        if (w.hw) hw_on(t->id);
        // (the static watch stays armed across switches: static storage is nobody's)
    }
    if (!is_store && arena_addr) w.last_load[t->id] = addr;
}

}  // namespace reent

using namespace reent;

// ---- sanitizer-coverage callbacks (emitted only in code compiled from /repo)
extern "C" {
static inline bool lib_active() {
    if (!W) return false;
    sim::Task *t = W->tasks.cur();
    return t && W->in_call[t->id];
}
// A library call that executes millions of basic blocks is not computing anything: it waits for something (a lock word, a flag) that
// only another caller - possibly one that is suspended inside its own call - can change.
static inline void call_step() {
    sim::Task *t = W->tasks.cur();
    if (t && ++W->call_steps[t->id & 7] > 400000) {
        violation(std::string("hang:") + W->cur_fn, strf("the library call %s issued by task %d executed more than 4e5 basic blocks without returning while %u other task(s) are suspended inside "
                                                         "library calls: it waits for state shared between callers", W->cur_fn, t ? t->id : -1, W->suspended_in_call()));
    }
}
void __sanitizer_cov_trace_pc_guard(uint32_t *guard) {
    sim::cov_hit(*guard);
    if (lib_active()) { call_step(); preempt_point(false, 0); }
}
// basic-block callback of the gcc-built library (gcc has no load/store callbacks): preemption points only
void __sanitizer_cov_trace_pc(void) {
    if (lib_active()) { call_step(); preempt_point(false, 0); }
}
#define LOADCB(N) void __sanitizer_cov_load##N(void *a) { if (lib_active()) { check_access((uintptr_t)a, N, false, (uintptr_t)__builtin_return_address(0)); preempt_point(false, (uintptr_t)a); } }
#define STORECB(N) void __sanitizer_cov_store##N(void *a) { if (lib_active()) { check_access((uintptr_t)a, N, true, (uintptr_t)__builtin_return_address(0)); preempt_point(true, (uintptr_t)a); } }
LOADCB(1) LOADCB(2) LOADCB(4) LOADCB(8) LOADCB(16)
// gcc has no such callbacks in its coverage instrumentation, but its thread-sanitizer pass announces every access that can be
// visible to another thread (__tsan_read4(addr) ...). The gcc build of the library is compiled with -fsanitize=thread and linked
// against these definitions instead of the sanitizer's run-time library.
#define TSANCB(N)                                                                                                                                       \
    void __tsan_read##N(void *a) { if (lib_active()) { check_access((uintptr_t)a, N, false, (uintptr_t)__builtin_return_address(0)); preempt_point(false, (uintptr_t)a); } }  \
    void __tsan_write##N(void *a) { if (lib_active()) { check_access((uintptr_t)a, N, true, (uintptr_t)__builtin_return_address(0)); preempt_point(true, (uintptr_t)a); } }  \
    void __tsan_unaligned_read##N(void *a) { if (lib_active()) { check_access((uintptr_t)a, N, false, (uintptr_t)__builtin_return_address(0)); preempt_point(false, (uintptr_t)a); } }  \
    void __tsan_unaligned_write##N(void *a) { if (lib_active()) { check_access((uintptr_t)a, N, true, (uintptr_t)__builtin_return_address(0)); preempt_point(true, (uintptr_t)a); } }
TSANCB(1) TSANCB(2) TSANCB(4) TSANCB(8) TSANCB(16)
void __tsan_read_range(void *a, long n) { if (lib_active() && n > 0) { check_access((uintptr_t)a, (size_t)n, false, (uintptr_t)__builtin_return_address(0)); preempt_point(false, (uintptr_t)a); } }
void __tsan_write_range(void *a, long n) { if (lib_active() && n > 0) { check_access((uintptr_t)a, (size_t)n, true, (uintptr_t)__builtin_return_address(0)); preempt_point(true, (uintptr_t)a); } }
// atomic operations are announced by the same pass as calls that replace them; they are performed here, after the same checks
// (a lock word or a counter in static storage is a store to static storage like any other)
#define TSAN_ATOMIC(N, T)                                                                                                                     \
    static inline void tsan_atomic_chk##N(const volatile void *a, bool st, uintptr_t pc) { if (lib_active()) { check_access((uintptr_t)a, N / 8, st, pc); preempt_point(st, (uintptr_t)a); } } \
    T __tsan_atomic##N##_load(const volatile T *a, int) { tsan_atomic_chk##N(a, false, (uintptr_t)__builtin_return_address(0)); return __atomic_load_n(a, __ATOMIC_SEQ_CST); } \
    void __tsan_atomic##N##_store(volatile T *a, T v, int) { tsan_atomic_chk##N(a, true, (uintptr_t)__builtin_return_address(0)); __atomic_store_n(a, v, __ATOMIC_SEQ_CST); } \
    T __tsan_atomic##N##_exchange(volatile T *a, T v, int) { tsan_atomic_chk##N(a, true, (uintptr_t)__builtin_return_address(0)); return __atomic_exchange_n(a, v, __ATOMIC_SEQ_CST); } \
    T __tsan_atomic##N##_fetch_add(volatile T *a, T v, int) { tsan_atomic_chk##N(a, true, (uintptr_t)__builtin_return_address(0)); return __atomic_fetch_add(a, v, __ATOMIC_SEQ_CST); } \
    T __tsan_atomic##N##_fetch_sub(volatile T *a, T v, int) { tsan_atomic_chk##N(a, true, (uintptr_t)__builtin_return_address(0)); return __atomic_fetch_sub(a, v, __ATOMIC_SEQ_CST); } \
    T __tsan_atomic##N##_fetch_and(volatile T *a, T v, int) { tsan_atomic_chk##N(a, true, (uintptr_t)__builtin_return_address(0)); return __atomic_fetch_and(a, v, __ATOMIC_SEQ_CST); } \
    T __tsan_atomic##N##_fetch_or(volatile T *a, T v, int) { tsan_atomic_chk##N(a, true, (uintptr_t)__builtin_return_address(0)); return __atomic_fetch_or(a, v, __ATOMIC_SEQ_CST); } \
    T __tsan_atomic##N##_fetch_xor(volatile T *a, T v, int) { tsan_atomic_chk##N(a, true, (uintptr_t)__builtin_return_address(0)); return __atomic_fetch_xor(a, v, __ATOMIC_SEQ_CST); } \
    T __tsan_atomic##N##_fetch_nand(volatile T *a, T v, int) { tsan_atomic_chk##N(a, true, (uintptr_t)__builtin_return_address(0)); return __atomic_fetch_nand(a, v, __ATOMIC_SEQ_CST); } \
    int __tsan_atomic##N##_compare_exchange_strong(volatile T *a, T *c, T v, int, int) { tsan_atomic_chk##N(a, true, (uintptr_t)__builtin_return_address(0)); return __atomic_compare_exchange_n(a, c, v, false, __ATOMIC_SEQ_CST, __ATOMIC_SEQ_CST); } \
    int __tsan_atomic##N##_compare_exchange_weak(volatile T *a, T *c, T v, int, int) { tsan_atomic_chk##N(a, true, (uintptr_t)__builtin_return_address(0)); return __atomic_compare_exchange_n(a, c, v, false, __ATOMIC_SEQ_CST, __ATOMIC_SEQ_CST); } \
    T __tsan_atomic##N##_compare_exchange_val(volatile T *a, T c, T v, int, int) { tsan_atomic_chk##N(a, true, (uintptr_t)__builtin_return_address(0)); __atomic_compare_exchange_n(a, &c, v, false, __ATOMIC_SEQ_CST, __ATOMIC_SEQ_CST); return c; }
TSAN_ATOMIC(8, uint8_t) TSAN_ATOMIC(16, uint16_t) TSAN_ATOMIC(32, uint32_t) TSAN_ATOMIC(64, uint64_t)
void __tsan_atomic_thread_fence(int) {}
void __tsan_atomic_signal_fence(int) {}
void __tsan_init(void) {}
void __tsan_func_entry(void *) {}
void __tsan_func_exit(void) {}
STORECB(1) STORECB(2) STORECB(4) STORECB(8) STORECB(16)

void *__wrap_memcpy(void *d, const void *s, size_t n) {
    uintptr_t pc = (uintptr_t)__builtin_return_address(0);
    if (lib_active() && sim::g_symtab.is_repo(pc) && n) {
        check_access((uintptr_t)s, n, false, pc);
        check_access((uintptr_t)d, n, true, pc);
        preempt_point(true, (uintptr_t)d);
    }
    return __real_memcpy(d, s, n);
}
void *__wrap_memmove(void *d, const void *s, size_t n) {
    uintptr_t pc = (uintptr_t)__builtin_return_address(0);
    if (lib_active() && sim::g_symtab.is_repo(pc) && n) {
        check_access((uintptr_t)s, n, false, pc);
        check_access((uintptr_t)d, n, true, pc);
        preempt_point(true, (uintptr_t)d);
    }
    return __real_memmove(d, s, n);
}
// libc facilities with hidden static state: a call from library code is a breach of the property by itself
#define UNSAFE_LIBC(ret, name, params, args)                                                                                   \
    ret __real_##name params;                                                                                                  \
    ret __wrap_##name params {                                                                                                 \
        uintptr_t pc = (uintptr_t)__builtin_return_address(0);                                                                 \
        if (lib_active() && sim::g_symtab.is_repo(pc))                                                                          \
            violation(std::string("shared-state:libc-") + #name + ":" + sim::g_symtab.func(pc),                                \
                      sim::g_symtab.func(pc) + "() calls " #name "(), which keeps hidden static state inside libc");          \
        return __real_##name args;                                                                                             \
    }
UNSAFE_LIBC(char *, strtok, (char *s, const char *d), (s, d))
UNSAFE_LIBC(int, rand, (void), ())
UNSAFE_LIBC(void, srand, (unsigned s), (s))
UNSAFE_LIBC(struct tm *, localtime, (const time_t *t), (t))
UNSAFE_LIBC(struct tm *, gmtime, (const time_t *t), (t))
UNSAFE_LIBC(char *, ctime, (const time_t *t), (t))
UNSAFE_LIBC(char *, asctime, (const struct tm *t), (t))
UNSAFE_LIBC(char *, strerror, (int e), (e))
UNSAFE_LIBC(char *, setlocale, (int c, const char *l), (c, l))

// libc facilities that keep their state in an object the CALLER of libc provides (the _r family, conversion states): libc does the
// stores, so no access callback sees them. The state object is checked like any other store of the library call: fine on the
// call's own stack or in the objects passed to the call, a breach in static storage, in another caller's objects or in a heap block
// that outlives the call.
#define STATE_LIBC(ret, name, params, args, stateptr, statesize)                                                               \
    ret __real_##name params;                                                                                                  \
    ret __wrap_##name params {                                                                                                 \
        uintptr_t pc = (uintptr_t)__builtin_return_address(0);                                                                 \
        if (lib_active() && sim::g_symtab.is_repo(pc)) {                                                                        \
            W->pr_libc_state++;                                                                                                \
            if (!(stateptr))                                                                                                   \
                violation(std::string("shared-state:libc-") + #name + ":" + sim::g_symtab.func(pc),                            \
                          sim::g_symtab.func(pc) + "() calls " #name "() without a state object: libc then uses hidden static state"); \
            check_access((uintptr_t)(stateptr), (statesize), true, pc);                                                        \
            preempt_point(true, (uintptr_t)(stateptr));                                                                        \
        }                                                                                                                      \
        return __real_##name args;                                                                                             \
    }
STATE_LIBC(int, rand_r, (unsigned *sd), (sd), sd, sizeof *sd)
STATE_LIBC(char *, strtok_r, (char *s, const char *d, char **sv), (s, d, sv), sv, sizeof *sv)
STATE_LIBC(int, random_r, (struct random_data *b, int32_t *r), (b, r), b, sizeof *b)
STATE_LIBC(int, srandom_r, (unsigned sd, struct random_data *b), (sd, b), b, sizeof *b)
STATE_LIBC(int, initstate_r, (unsigned sd, char *st, size_t n, struct random_data *b), (sd, st, n, b), b, sizeof *b)
STATE_LIBC(int, setstate_r, (char *st, struct random_data *b), (st, b), b, sizeof *b)
STATE_LIBC(int, drand48_r, (struct drand48_data *b, double *r), (b, r), b, sizeof *b)
STATE_LIBC(int, lrand48_r, (struct drand48_data *b, long *r), (b, r), b, sizeof *b)
STATE_LIBC(int, mrand48_r, (struct drand48_data *b, long *r), (b, r), b, sizeof *b)
STATE_LIBC(int, erand48_r, (unsigned short x[3], struct drand48_data *b, double *r), (x, b, r), b, sizeof *b)
STATE_LIBC(int, nrand48_r, (unsigned short x[3], struct drand48_data *b, long *r), (x, b, r), b, sizeof *b)
STATE_LIBC(int, jrand48_r, (unsigned short x[3], struct drand48_data *b, long *r), (x, b, r), b, sizeof *b)
STATE_LIBC(int, srand48_r, (long sd, struct drand48_data *b), (sd, b), b, sizeof *b)
STATE_LIBC(int, seed48_r, (unsigned short x[3], struct drand48_data *b), (x, b), b, sizeof *b)
STATE_LIBC(int, lcong48_r, (unsigned short x[7], struct drand48_data *b), (x, b), b, sizeof *b)
STATE_LIBC(size_t, mbrtowc, (wchar_t *pwc, const char *s, size_t n, mbstate_t *ps), (pwc, s, n, ps), ps, sizeof *ps)
STATE_LIBC(size_t, mbrlen, (const char *s, size_t n, mbstate_t *ps), (s, n, ps), ps, sizeof *ps)
STATE_LIBC(size_t, wcrtomb, (char *s, wchar_t wc, mbstate_t *ps), (s, wc, ps), ps, sizeof *ps)
STATE_LIBC(size_t, mbsrtowcs, (wchar_t *d, const char **s, size_t n, mbstate_t *ps), (d, s, n, ps), ps, sizeof *ps)
STATE_LIBC(size_t, wcsrtombs, (char *d, const wchar_t **s, size_t n, mbstate_t *ps), (d, s, n, ps), ps, sizeof *ps)
STATE_LIBC(size_t, mbrtoc32, (char32_t *pw, const char *s, size_t n, mbstate_t *ps), (pw, s, n, ps), ps, sizeof *ps)
STATE_LIBC(size_t, mbrtoc16, (char16_t *pw, const char *s, size_t n, mbstate_t *ps), (pw, s, n, ps), ps, sizeof *ps)
STATE_LIBC(size_t, c32rtomb, (char *s, char32_t c, mbstate_t *ps), (s, c, ps), ps, sizeof *ps)
STATE_LIBC(size_t, c16rtomb, (char *s, char16_t c, mbstate_t *ps), (s, c, ps), ps, sizeof *ps)
STATE_LIBC(struct tm *, localtime_r, (const time_t *t, struct tm *r), (t, r), r, sizeof *r)
STATE_LIBC(struct tm *, gmtime_r, (const time_t *t, struct tm *r), (t, r), r, sizeof *r)
// ... and those whose state is an opaque handle (a conversion descriptor): libc documents a data race when two threads use one
// handle, so a handle that serves the calls of two different callers (who share no object) is state shared behind their backs
size_t __real_iconv(iconv_t, char **, size_t *, char **, size_t *);
size_t __wrap_iconv(iconv_t cd, char **in, size_t *inleft, char **out, size_t *outleft) {
    uintptr_t pc = (uintptr_t)__builtin_return_address(0);
    if (lib_active() && sim::g_symtab.is_repo(pc)) {
        W->pr_libc_state++;
        int me = W->tasks.cur()->id;
        auto it = W->handle_user.find((uintptr_t)cd);
        if (it == W->handle_user.end()) W->handle_user[(uintptr_t)cd] = me;
        else if (it->second != me)
            violation(std::string("shared-state:libc-handle:iconv:") + sim::g_symtab.func(pc),
                      strf("%s() running for task %d converts through the iconv descriptor %p that it already used for task %d: the descriptor (its shift state and "
                           "counters, written by every conversion) is shared between callers that share no object", sim::g_symtab.func(pc).c_str(), me, (void *)cd, it->second));
        preempt_point(true, 0);
    }
    return __real_iconv(cd, in, inleft, out, outleft);
}
int __real_iconv_close(iconv_t);
int __wrap_iconv_close(iconv_t cd) {
    if (W) W->handle_user.erase((uintptr_t)cd);
    return __real_iconv_close(cd);
}

// Heap blocks that library code allocates for itself are that call's own temporaries (like stack locals); they become foreign
// objects for every other task, and a block that outlives its call is only reachable through static storage, whose write is reported.
void *__real_malloc(size_t);
void *__real_calloc(size_t, size_t);
void *__real_realloc(void *, size_t);
void __real_free(void *);
static void heap_note(void *p, size_t n, uintptr_t pc) {
    if (!p || !lib_active() || !sim::g_symtab.is_repo(pc)) return;
    W->heap.push_back(World::HeapObj{(uintptr_t)p, n, W->tasks.cur()->id});
    W->pr_heap++;
}
static void heap_forget(void *p) {
    if (!p || !W || W->heap.empty()) return;
    for (size_t i = 0; i < W->heap.size(); i++)
        if (W->heap[i].p == (uintptr_t)p) { W->heap.erase(W->heap.begin() + i); return; }
}
// allocation failure is the one fault a library's own temporaries are exposed to: in the runs that say so half of the allocations
// made by library code fail (the unchanged library allocates nothing)
static bool lib_alloc_fails(uintptr_t pc) {
    if (!W || !W->oom || !lib_active() || !sim::g_symtab.is_repo(pc)) return false;
    // (decided by the caller and its own count of allocations, so that the sequential and the interleaved execution agree)
    int t = W->tasks.cur()->id & 7;
    if (!(sim::mix64(W->oom_seed, ((uint64_t)t << 32) | W->alloc_count[t]++) & 1)) return false;
    W->pr_oom++;
    errno = ENOMEM;
    return true;
}
void *__wrap_malloc(size_t n) { if (lib_alloc_fails((uintptr_t)__builtin_return_address(0))) return nullptr; void *p = __real_malloc(n); heap_note(p, n, (uintptr_t)__builtin_return_address(0)); return p; }
void *__wrap_calloc(size_t a, size_t b) { if (lib_alloc_fails((uintptr_t)__builtin_return_address(0))) return nullptr; void *p = __real_calloc(a, b); heap_note(p, a * b, (uintptr_t)__builtin_return_address(0)); return p; }
void *__wrap_realloc(void *o, size_t n) { heap_forget(o); void *p = __real_realloc(o, n); heap_note(p, n, (uintptr_t)__builtin_return_address(0)); return p; }
void __wrap_free(void *p) { heap_forget(p); __real_free(p); }

// Every other libc function that POSIX lists as "need not be thread-safe" (hidden static state): a generic trampoline saves the
// argument registers, reports the call if it comes from library code, and tail-jumps to the real function.
void reent_libc_trap(uintptr_t pc, const char *name) {
    if (lib_active() && sim::g_symtab.is_repo(pc))
        violation(std::string("shared-state:libc-") + name + ":" + sim::g_symtab.func(pc),
                  sim::g_symtab.func(pc) + "() calls " + name + "(), which works on process-wide state inside libc (hidden static storage, the environment or a standard stream)");
}
#define DENY_LIBC(name)                                                                                                         \
    __asm__(".text\n.globl __wrap_" #name "\n.type __wrap_" #name ",@function\n__wrap_" #name ":\n"                            \
            "  push %rdi\n  push %rsi\n  push %rdx\n  push %rcx\n  push %r8\n  push %r9\n  push %rax\n  sub $128,%rsp\n"     \
            "  movdqu %xmm0,(%rsp)\n  movdqu %xmm1,16(%rsp)\n  movdqu %xmm2,32(%rsp)\n  movdqu %xmm3,48(%rsp)\n"               \
            "  movdqu %xmm4,64(%rsp)\n  movdqu %xmm5,80(%rsp)\n  movdqu %xmm6,96(%rsp)\n  movdqu %xmm7,112(%rsp)\n"            \
            "  mov 184(%rsp),%rdi\n  lea .Lname_" #name "(%rip),%rsi\n  call reent_libc_trap\n"                                \
            "  movdqu (%rsp),%xmm0\n  movdqu 16(%rsp),%xmm1\n  movdqu 32(%rsp),%xmm2\n  movdqu 48(%rsp),%xmm3\n"               \
            "  movdqu 64(%rsp),%xmm4\n  movdqu 80(%rsp),%xmm5\n  movdqu 96(%rsp),%xmm6\n  movdqu 112(%rsp),%xmm7\n"            \
            "  add $128,%rsp\n  pop %rax\n  pop %r9\n  pop %r8\n  pop %rcx\n  pop %rdx\n  pop %rsi\n  pop %rdi\n"              \
            "  jmp __real_" #name "\n.section .rodata\n.Lname_" #name ": .asciz \"" #name "\"\n.text\n");
#include "libc_denylist.inc"

// libc functions that WRITE THROUGH A POINTER the library gives them (string and formatting functions, sorting, number parsing with an
// end pointer): libc does the stores, so the destination is checked here, as a store of the running call at that address (first byte:
// the ownership of the object is what matters, the extent is libc's business and, for the caller's own objects, the guard pages').
void reent_libc_dest(uintptr_t pc, const char *name, uintptr_t dest) {
    (void)name;
    if (!dest || !lib_active() || !sim::g_symtab.is_repo(pc)) return;
    W->pr_libc_dest++;
    check_access(dest, 1, true, pc);
    preempt_point(true, dest);
}
#define DEST_LIBC(name, slot)                                                                                                   \
    __asm__(".text\n.globl __wrap_" #name "\n.type __wrap_" #name ",@function\n__wrap_" #name ":\n"                            \
            "  push %rdi\n  push %rsi\n  push %rdx\n  push %rcx\n  push %r8\n  push %r9\n  push %rax\n  sub $128,%rsp\n"     \
            "  movdqu %xmm0,(%rsp)\n  movdqu %xmm1,16(%rsp)\n  movdqu %xmm2,32(%rsp)\n  movdqu %xmm3,48(%rsp)\n"               \
            "  movdqu %xmm4,64(%rsp)\n  movdqu %xmm5,80(%rsp)\n  movdqu %xmm6,96(%rsp)\n  movdqu %xmm7,112(%rsp)\n"            \
            "  mov 184(%rsp),%rdi\n  lea .Ldname_" #name "(%rip),%rsi\n  mov " #slot "(%rsp),%rdx\n  call reent_libc_dest\n"  \
            "  movdqu (%rsp),%xmm0\n  movdqu 16(%rsp),%xmm1\n  movdqu 32(%rsp),%xmm2\n  movdqu 48(%rsp),%xmm3\n"               \
            "  movdqu 64(%rsp),%xmm4\n  movdqu 80(%rsp),%xmm5\n  movdqu 96(%rsp),%xmm6\n  movdqu 112(%rsp),%xmm7\n"            \
            "  add $128,%rsp\n  pop %rax\n  pop %r9\n  pop %r8\n  pop %rcx\n  pop %rdx\n  pop %rsi\n  pop %rdi\n"              \
            "  jmp __real_" #name "\n.section .rodata\n.Ldname_" #name ": .asciz \"" #name "\"\n.text\n");
// destination = first argument (saved %rdi is at 176(%rsp) inside the trampoline)
DEST_LIBC(strcpy, 176) DEST_LIBC(strncpy, 176) DEST_LIBC(strcat, 176) DEST_LIBC(strncat, 176) DEST_LIBC(stpcpy, 176) DEST_LIBC(stpncpy, 176)
DEST_LIBC(sprintf, 176) DEST_LIBC(snprintf, 176) DEST_LIBC(vsprintf, 176) DEST_LIBC(vsnprintf, 176) DEST_LIBC(memccpy, 176) DEST_LIBC(mempcpy, 176)
DEST_LIBC(bzero, 176) DEST_LIBC(explicit_bzero, 176) DEST_LIBC(wmemcpy, 176) DEST_LIBC(wmemmove, 176) DEST_LIBC(wmemset, 176) DEST_LIBC(strxfrm, 176)
DEST_LIBC(qsort, 176) DEST_LIBC(wcscpy, 176) DEST_LIBC(wcsncpy, 176)
// destination = second argument (saved %rsi, 168(%rsp)): the end pointer of the number parsers, bcopy, swab
DEST_LIBC(bcopy, 168) DEST_LIBC(swab, 168) DEST_LIBC(strtol, 168) DEST_LIBC(strtoul, 168) DEST_LIBC(strtoll, 168) DEST_LIBC(strtoull, 168)
DEST_LIBC(strtod, 168) DEST_LIBC(strtof, 168)

// The process environment is global state that a library call may consult (debug switches and the like). Cooperative fault point:
// in half of the runs every variable that library code asks for is "set" (to "1"), so that whatever hides behind such a switch runs.
char *__real_getenv(const char *);
char *__real_secure_getenv(const char *);
static char *env_answer(const char *name, uintptr_t pc, char *real) {
    if (!lib_active() || !sim::g_symtab.is_repo(pc)) return real;
    W->pr_env++;
    (void)name;
    static char one[] = "1";
    return W->env_on ? one : nullptr;
}
char *__wrap_getenv(const char *n) { return env_answer(n, (uintptr_t)__builtin_return_address(0), __real_getenv(n)); }
char *__wrap_secure_getenv(const char *n) { return env_answer(n, (uintptr_t)__builtin_return_address(0), __real_secure_getenv(n)); }

void *__wrap_memset(void *d, int c, size_t n) {
    uintptr_t pc = (uintptr_t)__builtin_return_address(0);
    if (lib_active() && sim::g_symtab.is_repo(pc) && n) {
        check_access((uintptr_t)d, n, true, pc);
        preempt_point(true, (uintptr_t)d);
    }
    return __real_memset(d, c, n);
}
}

namespace reent {

static void load_exe_regions() {
    FILE *f = fopen("/proc/self/maps", "r");
    if (!f) return;
    char line[512], exe[256] = {0};
    ssize_t n = readlink("/proc/self/exe", exe, sizeof exe - 1);
    if (n > 0) exe[n] = 0;
    while (fgets(line, sizeof line, f)) {
        unsigned long lo, hi;
        char perm[8], path[300] = {0};
        if (sscanf(line, "%lx-%lx %7s %*s %*s %*s %299s", &lo, &hi, perm, path) < 3) continue;
        if (strcmp(path, exe) != 0 && !(path[0] == 0 && !g_exe_regions.empty() && g_exe_regions.back().hi == lo && g_exe_regions.back().writable)) continue;  // include .bss tail
        g_exe_regions.push_back(Region{lo, hi, perm[1] == 'w'});
    }
    fclose(f);
}

static void fill(uint8_t *p, size_t n, uint64_t seed) {
    Rng r(seed);
    for (size_t i = 0; i < n; i++) p[i] = (uint8_t)r.next();
}

static uint64_t hash_bytes(const uint8_t *p, size_t n) {
    sim::Digest d;
    d.add(p, n);
    return d.h;
}

static std::vector<int> parse_ints(const std::string &s) {
    std::vector<int> v;
    if (s.empty() || s == "-") return v;
    size_t b = 0;
    while (b <= s.size()) {
        size_t e = s.find(',', b);
        if (e == std::string::npos) e = s.size();
        v.push_back(atoi(s.substr(b, e - b).c_str()));
        b = e + 1;
    }
    return v;
}

static Obj *obj(int id) {
    auto it = W->obj_index.find(id);
    return it == W->obj_index.end() ? nullptr : &W->objs[it->second];
}

// errno is the caller's: whatever a library function does may not depend on the stale value it finds there (a function of the plan,
// so that both executions of a plan see the same values)
static int stale_errno(const Call &c) {
    static const int vals[] = {0, 0, EINVAL, EMSGSIZE, ERANGE, EOVERFLOW, ENOMEM, EAGAIN, EINTR, ENOBUFS, E2BIG, EDOM};
    uint64_t h = sim::mix64((uint64_t)c.task * 0x9E3779B97F4A7C15ULL ^ c.v ^ (c.a << 8) ^ (c.b << 20) ^ (uint64_t)c.obj, c.fn.size() + c.field.size());
    return vals[h % (sizeof vals / sizeof vals[0])];
}

// executes one call on behalf of the running task; returns its result (or a digest of its outputs)
static uint64_t do_call(const Call &c, bool &skipped) {
    World &w = *W;
    skipped = false;
    if (c.fn == "extra") {  // a pointer-free public function that is not part of the baseline API: callable with any small arguments
        if (c.a >= bind_nextras) { skipped = true; return 0; }
        int xt = w.tasks.cur() ? w.tasks.cur()->id : -1;
        if (xt >= 0) { w.in_shared_call[xt] = false; w.in_call[xt] = 1; w.call_steps[xt & 7] = 0; snprintf(w.cur_fn, sizeof w.cur_fn, "%s", bind_extras[c.a].name); }
        w.calls++;
        w.pr_extra++;
        errno = stale_errno(c);
        uint64_t xr = bind_extras[c.a].fn(c.b, c.c, c.d, 0);
        if (xt >= 0) w.in_call[xt] = 0;
        return xr;
    }
    Obj *o = obj(c.obj);
    if (!o) { skipped = true; return 0; }
    if (c.fn == "extrap") {
        if (c.a >= bind_nextras_p) { skipped = true; return 0; }
        const BindExtraP &x = bind_extras_p[c.a];
        const BindFormat *xf = find_format(x.fmt);
        int xt = w.tasks.cur() ? w.tasks.cur()->id : -1;
        if (!xf || o->size < xf->spec_bytes || (o->shared && !x.is_const) || xt < 0) { skipped = true; return 0; }
        uint64_t xb = c.b;
        if (x.fmt2) {
            Obj *xo2 = obj(c.obj2);
            const BindFormat *xf2 = find_format(x.fmt2);
            if (!xo2 || !xf2 || xo2->size < xf2->spec_bytes || (xo2->shared && !x.is_const2) || xo2 == o) { skipped = true; return 0; }
            xb = (uint64_t)(uintptr_t)xo2->p;
        }
        w.in_shared_call[xt] = o->shared; w.in_call[xt] = 1; w.call_steps[xt & 7] = 0; snprintf(w.cur_fn, sizeof w.cur_fn, "%s", x.name);
        w.calls++;
        w.pr_extra++;
        errno = stale_errno(c);
        hw_enter(xt, *o, nullptr);
        uint64_t xr = x.fn(o->p, xb, c.c, c.d);
        hw_leave(xt);
        w.in_call[xt] = 0;
        return xr;
    }
    uint64_t res = 0;
    int tid = w.tasks.cur() ? w.tasks.cur()->id : -1;  // -1: set-up phase (main context, not monitored)
    if (tid >= 0) w.in_shared_call[tid] = o->shared;
    Obj *hw_dst = nullptr;  // the object the call delivers its result into, if it is not the principal one
    auto enter = [&] { errno = stale_errno(c); if (tid >= 0) { w.in_call[tid] = 1; w.call_steps[tid & 7] = 0; snprintf(w.cur_fn, sizeof w.cur_fn, "%s%s%s", c.fn.c_str(), c.fmt.empty() ? "" : ".", c.fmt.c_str()); hw_enter(tid, *o, hw_dst); hws_enter(tid); } w.calls++; };
    auto leave = [&] { if (tid >= 0) { hw_leave(tid); w.in_call[tid] = 0; } };
    // callers never hand a shared (read-only) object to a function that writes its argument
    if (tid >= 0 && o->shared && c.fn != "get" && c.fn != "vss_decode" && c.fn != "vss_pathlen" && c.fn != "can_paylen" && c.fn != "can_payoff") { skipped = true; return 0; }
    if (c.fn == "init" || c.fn == "set" || c.fn == "get") {
        const BindFormat *f = find_format(c.fmt);
        if (!f || o->size < f->spec_bytes) { skipped = true; return 0; }
        if (c.fn == "init") {
            bool legacy = c.via == "legacy", legacy2 = c.via == "legacy2";
            if (legacy2 ? !f->legacy_init2 : legacy ? !f->legacy_init : !f->init) { skipped = true; return 0; }
            enter();
            if (legacy2) res = (uint64_t)f->legacy_init2(o->p, (unsigned)c.v); else if (legacy) res = (uint64_t)f->legacy_init(o->p); else f->init(o->p);
            leave();
            return res;
        }
        const BindField *fl = find_field(f, c.field);
        if (!fl) { skipped = true; return 0; }
        if (c.fn == "set") {
            if ((c.via == "gen" && (!f->setfield || fl->field_id < 0)) || (c.via == "ded" && !fl->set) || (c.via == "leg" && (!f->legacy_set || fl->field_id < 0))) { skipped = true; return 0; }
            enter();
            if (c.via == "gen") f->setfield(o->p, fl->field_id, c.v);
            else if (c.via == "ded") fl->set(o->p, c.v);
            else res = (uint64_t)f->legacy_set(o->p, fl->legacy_id >= 0 ? fl->legacy_id : fl->field_id, c.v);
            leave();
            return res;
        }
        if ((c.via == "gen" && (!f->getfield || fl->field_id < 0)) || (c.via == "ded" && !fl->get) || (c.via == "leg" && (!f->legacy_get || fl->field_id < 0))) { skipped = true; return 0; }
        enter();
        if (c.via == "gen") res = f->getfield(o->p, fl->field_id);
        else if (c.via == "ded") res = fl->get(o->p);
        else { uint64_t v = 0; f->legacy_get(o->p, fl->legacy_id >= 0 ? fl->legacy_id : fl->field_id, &v); res = v; }
        leave();
        return res;
    }
    if (c.fn == "bad") {
        const BindFormat *f = find_format(c.fmt);
        const BindField *fl = f ? find_field(f, c.field) : nullptr;
        if (!f || !fl || o->size < f->spec_bytes || o->shared) { skipped = true; return 0; }
        int fmax = f->field_max, fid = fl->field_id;
        const std::string &k = c.via;
        uint64_t tmp = 0;
        enter();
        if (k == "getfield_max" && f->getfield && fmax >= 0) res = f->getfield(o->p, fmax);
        else if (k == "setfield_max" && f->setfield && fmax >= 0) f->setfield(o->p, fmax, c.v);
        else if (k == "getfield_ff" && f->getfield) res = f->getfield(o->p, 0xff);
        else if (k == "setfield_ff" && f->setfield) f->setfield(o->p, 0xff, c.v);
        else if (k == "lget_max" && f->legacy_get && fmax >= 0) res = (uint64_t)f->legacy_get(o->p, fmax, &tmp) ^ tmp;
        else if (k == "lset_max" && f->legacy_set && fmax >= 0) res = (uint64_t)f->legacy_set(o->p, fmax, c.v);
        else if (k == "lget_nullval" && f->legacy_get_raw && fid >= 0) res = (uint64_t)f->legacy_get_raw(o->p, fid, nullptr);
        else if (k == "get_nullpdu" && f->getfield && fid >= 0) res = f->getfield(nullptr, fid) ^ (fl->get ? fl->get(nullptr) : 0);
        else if (k == "set_nullpdu" && f->setfield && fid >= 0) { f->setfield(nullptr, fid, c.v); if (fl->set) fl->set(nullptr, c.v); }
        else if (k == "init_nullpdu" && f->init) f->init(nullptr);
        else if (k == "linit_nullpdu" && f->legacy_init) res = (uint64_t)f->legacy_init(nullptr);
        else if (k == "lget_nullpdu" && f->legacy_get && fid >= 0) res = (uint64_t)f->legacy_get(nullptr, fid, &tmp) ^ tmp;
        else if (k == "lset_nullpdu" && f->legacy_set && fid >= 0) res = (uint64_t)f->legacy_set(nullptr, fid, c.v);
        else { leave(); skipped = true; return 0; }
        leave();
        w.pr_badargs++;
        return res;
    }
    Obj *o2 = obj(c.obj2), *o3 = obj(c.obj3);
    if (c.fn == "can_create" || c.fn == "canbrief_setpayload") {
        bool brief = c.fn[3] == 'b';
        unsigned len = (unsigned)c.b, pad = (4 - len % 4) % 4;
        if (!o2 || o->size < (brief ? 8u : 16u) + len + pad || o2->size < len) { skipped = true; return 0; }
        enter();
        res = brief ? drv_canbrief_setpayload(o->p, (uint32_t)c.a, o2->p, (uint16_t)len, (int)c.c) : drv_can_create(o->p, (uint32_t)c.a, o2->p, (uint16_t)len, (int)c.c);
        leave();
        return res;
    }
    if (c.fn == "can_setpayload") {
        if (!o2 || o->size < 16 + c.b || o2->size < c.b) { skipped = true; return 0; }
        enter(); res = drv_can_setpayload(o->p, o2->p, (uint16_t)c.b); leave();
        return res;
    }
    if (c.fn == "can_finalize" || c.fn == "canbrief_finalize") {
        bool brief = c.fn[3] == 'b';
        unsigned len = (unsigned)c.b, pad = (4 - len % 4) % 4;
        if (o->size < (brief ? 8u : 16u) + len + pad) { skipped = true; return 0; }
        enter(); res = brief ? drv_canbrief_finalize(o->p, (uint16_t)len) : drv_can_finalize(o->p, (uint16_t)len); leave();
        return res;
    }
    if (c.fn == "can_paylen") { if (o->size < 16) { skipped = true; return 0; } enter(); res = drv_can_payload_length(o->p); leave(); return res; }
    if (c.fn == "can_payoff") { if (o->size < 16) { skipped = true; return 0; } enter(); res = drv_can_payload_offset(o->p); leave(); return res; }
    if (c.fn == "vss_encode") {
        unsigned am = (unsigned)c.a, dt = (unsigned)c.b, plen = (unsigned)c.c, abytes = (unsigned)c.d;
        unsigned pathbytes = am == 1 ? 4 : 2 + plen;
        unsigned valbytes = vss_is_var(dt) ? 2 + abytes : vss_scalar_bytes(dt);
        if (o->size < 12 + pathbytes + valbytes || (am != 1 && (!o2 || o2->size < plen)) || (vss_is_var(dt) && (!o3 || o3->size < abytes))) { skipped = true; return 0; }
        enter();
        res = drv_vss_encode(o->p, am, dt, (uint32_t)c.v, o2 ? (char *)o2->p : nullptr, (uint16_t)plen, c.v, o3 ? o3->p : nullptr, (uint16_t)abytes);
        leave();
        return res;
    }
    if (c.fn == "vss_mkinput") {  // set-up only: fills the shared input block (no library code involved)
        if (tid >= 0 || o->size < DRV_VSS_INBLOCK_SIZE) { skipped = true; return 0; }
        unsigned am = (unsigned)c.a, dt = (unsigned)c.b, plen = (unsigned)c.c, abytes = (unsigned)c.d;
        if ((am != 1 && (!o2 || o2->size < plen)) || (vss_is_var(dt) && (!o3 || o3->size < abytes))) { skipped = true; return 0; }
        drv_vss_mkinput(o->p, am, dt, (uint32_t)c.v, o2 ? (char *)o2->p : nullptr, (uint16_t)plen, c.v, o3 ? o3->p : nullptr, (uint16_t)abytes);
        w.inblock_ok[c.obj] = 12 + (am == 1 ? 4 : 2 + plen) + (vss_is_var(dt) ? 2 + abytes : vss_scalar_bytes(dt));
        return 0;
    }
    if (c.fn == "vss_encode_from") {
        auto it = o2 ? w.inblock_ok.find(c.obj2) : w.inblock_ok.end();
        if (!o2 || !o2->shared || it == w.inblock_ok.end() || o->size < it->second) { skipped = true; return 0; }
        enter(); res = drv_vss_encode_from(o->p, o2->p); leave();
        return res;
    }
    if (c.fn == "vss_reserved") {
        // reserved mode/datatype codes: with a reserved addressing mode no path, with a reserved datatype no value is touched;
        // the driver passes descriptors that live on the caller's stack and point nowhere
        unsigned am = (unsigned)c.a, dt = (unsigned)c.b;
        if (o->size < 16 || (am < 2 && !(dt >= 0xC && dt < 0x80) && dt < 0x8C)) { skipped = true; return 0; }
        if (am < 2) { skipped = true; return 0; }  // valid mode + reserved datatype would still write a path: needs path storage, not generated
        enter(); res = drv_vss_encode(o->p, am, dt, 0, nullptr, 0, 0, nullptr, 0); leave();
        return res;
    }
    if (c.fn == "vss_pad") {
        unsigned len = (unsigned)c.b, pad = (4 - len % 4) % 4;
        if (o->size < len + pad || len < 12) { skipped = true; return 0; }
        enter(); res = drv_vss_pad(o->p, (uint16_t)len); leave();
        return res;
    }
    if (c.fn == "vss_pathlen") { if (o->size < 14) { skipped = true; return 0; } enter(); res = drv_vss_pathlen(o->p); leave(); return res; }
    if (c.fn == "vss_decode") {
        // only decode what an earlier vss_encode of this run left in the message: sizes are re-derived from the message by a reference parse
        if (o->size < 14) { skipped = true; return 0; }
        unsigned am = (o->p[2] >> 3) & 3, dt = o->p[3];
        unsigned plen = am == 1 ? 0 : ((unsigned)o->p[12] << 8 | o->p[13]);
        unsigned pathbytes = am == 1 ? 4 : 2 + plen;
        if (am > 1 || o->size < 12 + pathbytes) { skipped = true; return 0; }
        unsigned abytes = 0, valbytes = vss_scalar_bytes(dt);
        if (vss_is_var(dt)) {
            if (o->size < 12 + pathbytes + 2) { skipped = true; return 0; }
            abytes = (unsigned)o->p[12 + pathbytes] << 8 | o->p[12 + pathbytes + 1];
            valbytes = 2 + abytes;
        } else if (!valbytes) { skipped = true; return 0; }
        if (o->size < 12 + pathbytes + valbytes || (am != 1 && (!o2 || o2->size < plen)) || (vss_is_var(dt) && (!o3 || o3->size < abytes))) { skipped = true; return 0; }
        hw_dst = o3 ? o3 : o2;
        enter(); res = drv_vss_decode(o->p, o2 ? (char *)o2->p : nullptr, o3 ? o3->p : nullptr); leave();
        if (o2) res ^= hash_bytes(o2->p, plen);
        if (o3) res ^= hash_bytes(o3->p, abytes) << 1;
        return res;
    }
    if (c.fn == "vss_strarr") {
        int n = (int)c.a;
        if (n > 48 || (int)c.objs.size() != n || (int)c.objs2.size() != n) { skipped = true; return 0; }
        char *src[48], *dst[48];
        uint16_t lens[48];
        size_t total = 0;
        std::vector<int> L = parse_ints(c.field);
        if ((int)L.size() != n) { skipped = true; return 0; }
        for (int i = 0; i < n; i++) {
            Obj *s = obj(c.objs[i]), *d = obj(c.objs2[i]);
            if (!s || !d || s->size < (size_t)L[i] || d->size < (size_t)L[i]) { skipped = true; return 0; }
            src[i] = (char *)s->p; dst[i] = (char *)d->p; lens[i] = (uint16_t)L[i];
            total += 2 + L[i];
        }
        if (o->size < total) { skipped = true; return 0; }
        if (n > 0) hw_dst = obj(c.objs2[(size_t)(c.obj + n) % (size_t)n]);  // (one of the destination strings is watched as well)
        enter(); res = drv_vss_strarr(o->p, src, lens, n, dst); leave();
        return res;
    }
    skipped = true;
    return 0;
}

struct Snapshot { std::vector<std::vector<uint64_t>> results; std::vector<uint8_t> arena; };

// Writable static storage of the library objects (.data/.bss between the link-time markers): whatever the callers do, it
// must read the same afterwards. This also sees writes that no instrumentation callback reports (code built by another
// compiler, inline assembly, stores made on the library's behalf by an uninstrumented callee).
struct StaticSnap { std::vector<uint8_t> data, bss, cdata, cbss; };
static StaticSnap take_static() {
    StaticSnap s;
    auto d = sim::g_symtab.repo_data(), b = sim::g_symtab.repo_bss();
    if (d.hi > d.lo) s.data.assign((const uint8_t *)d.lo, (const uint8_t *)d.hi);
    if (b.hi > b.lo) s.bss.assign((const uint8_t *)b.lo, (const uint8_t *)b.hi);
    auto cd = sim::g_symtab.caller_data(), cb = sim::g_symtab.caller_bss();
    if (cd.hi > cd.lo) s.cdata.assign((const uint8_t *)cd.lo, (const uint8_t *)cd.hi);
    if (cb.hi > cb.lo) s.cbss.assign((const uint8_t *)cb.lo, (const uint8_t *)cb.hi);
    return s;
}
static void check_static(const StaticSnap &before, const char *when) {
    auto cmp = [&](const std::vector<uint8_t> &old, uint64_t lo, const char *sec) {
        const uint8_t *cur = (const uint8_t *)lo;
        for (size_t i = 0; i < old.size(); i++)
            if (cur[i] != old[i]) {
                std::string sym = sim::g_symtab.data_sym(lo + i);
                std::string base = sym.substr(0, sym.find('+'));
                violation("shared-state:static-data:" + base, strf("%s of the library changed during the %s execution: %s (address %p) held 0x%02x before the callers ran and holds 0x%02x now",
                                                                   sec, when, sym.c_str(), (void *)(lo + i), old[i], cur[i]));
            }
    };
    cmp(before.data, sim::g_symtab.repo_data().lo, ".data");
    cmp(before.bss, sim::g_symtab.repo_bss().lo, ".bss");
    // (static storage that the public headers put into the caller's own translation units: static locals of inline functions)
    cmp(before.cdata, sim::g_symtab.caller_data().lo, ".data of the calling translation units (code from the public headers)");
    cmp(before.cbss, sim::g_symtab.caller_bss().lo, ".bss of the calling translation units (code from the public headers)");
    W->static_bytes = before.data.size() + before.bss.size();
}

static void init_arena() {
    World &w = *W;
    __real_memset(kArena, 0xEE, kArenaSize);
    for (auto &o : w.objs) fill(o.p, o.size, o.seed);
}

// guard layout: while the callers run, only the objects' own pages are accessible (shared read-only objects: readable only)
static void protect_arena(bool on) {
    World &w = *W;
    if (!w.guard_layout) return;
    if (!on) { mprotect(kArena, kArenaSize, PROT_READ | PROT_WRITE); return; }
    mprotect(kArena, kArenaSize, PROT_NONE);
    for (auto &o : w.objs) {
        uintptr_t lo = (uintptr_t)o.p & ~(uintptr_t)(kPage - 1), hi = ((uintptr_t)o.p + o.size + kPage - 1) & ~(uintptr_t)(kPage - 1);
        mprotect((void *)lo, hi - lo, o.shared ? PROT_READ : PROT_READ | PROT_WRITE);
    }
}

static Snapshot run_phase(bool interleave) {
    World &w = *W;
    protect_arena(false);
    init_arena();
    sim::g_tasks = nullptr;
    w.tasks = sim::Tasks();
    for (auto &c : w.setup) { bool sk; do_call(c, sk); }
    w.interleave = interleave;
    w.results.assign(w.prog.size(), {});
    w.tasks = sim::Tasks();
    sim::g_tasks = &w.tasks;
    sim::Tasks::refill_stacks();
    w.last_load.assign(w.prog.size(), 0);
    memset(w.alloc_count, 0, sizeof w.alloc_count);
    w.in_shared_call.assign(w.prog.size(), false);
    w.in_call.assign(w.prog.size(), 0);
    w.result_fn.assign(w.prog.size(), {});
    protect_arena(true);
    for (size_t t = 0; t < w.prog.size(); t++) {
        w.tasks.spawn(strf("caller%zu", t), [t]() -> int {
            World &w = *W;
            // every caller has a floating-point control state of its own, as threads have (flush-to-zero, denormals-are-zero, rounding
            // mode): what a library call saves of it must not come back in another caller
            const unsigned my_csr = 0x1F80u | ((t & 1) ? 0x8000u : 0) | ((t & 2) ? 0x0040u : 0) | ((t & 4) ? 0x2000u : 0);
            __builtin_ia32_ldmxcsr(my_csr);
            for (auto &c : w.prog[t]) {
                bool skipped;
                uint64_t r = do_call(c, skipped);
                if ((__builtin_ia32_stmxcsr() & ~0x3Fu) != my_csr)
                    violation(std::string("shared-state:fp-control:") + w.cur_fn,
                              strf("task %zu returned from %s with the floating-point control register MXCSR = 0x%04x; it had called with 0x%04x: the call restored a state it "
                                   "had saved for another caller", t, w.cur_fn, __builtin_ia32_stmxcsr() & ~0x3Fu, my_csr));
                if (skipped) continue;
                w.results[t].push_back(r);
                w.result_fn[t].push_back(c.fn == "get" || c.fn == "set" || c.fn == "init" ? c.fn + "." + c.fmt + (c.field.empty() ? "" : "." + c.field) + (c.via.empty() ? "" : ":" + c.via) : c.fn);
                if (w.interleave) {
                    ev("ret", t, r, w.results[t].size());
                    // call-granularity switch as well
                    if (w.policy != "none" && w.rng.chance(0.3)) w.tasks.yield();
                }
            }
            return 0;
        });
    }
    if (interleave && w.policy == "pct") {
        w.prio.assign(w.prog.size(), 0);
        for (auto &p : w.prio) p = 1000 + w.rng.below(100000);
        for (int i = 0; i < w.pct_changes; i++) w.pct_points.push_back(w.rng.below(20000));
        std::sort(w.pct_points.rbegin(), w.pct_points.rend());
    }
    for (;;) {
        std::vector<sim::Task *> run;
        for (auto *t : w.tasks.all()) if (t->state == sim::Task::RUNNABLE) run.push_back(t);
        if (run.empty()) break;
        sim::Task *c = run[0];  // sequential: lowest task id first, to completion
        if (interleave && w.policy != "none") {
            if (w.policy == "pct") { for (auto *t : run) if (w.prio[t->id] > w.prio[c->id]) c = t; }
            else c = run[w.rng.below(run.size())];
        }
        if (sim::g_shm) snprintf(sim::g_shm->cur_task, sizeof sim::g_shm->cur_task, "caller%d", c->id);
        w.tasks.switch_to(c);
    }
    protect_arena(false);
    Snapshot s;
    s.results = w.results;
    s.arena.assign(kArena, kArena + kArenaSize);
    return s;
}

static void exec(const std::string &text, bool verbose) {
    W = new World();
    World &w = *W;
    w.verbose = verbose;
    load_exe_regions();
    void *ar = mmap(kArena, kArenaSize, PROT_READ | PROT_WRITE, MAP_PRIVATE | MAP_ANONYMOUS | MAP_FIXED_NOREPLACE, -1, 0);
    if (ar != kArena) { g_res.status = 2; g_res.sig = "harness"; g_res.detail = "cannot map arena"; sim::finish_run(g_res); }
    size_t cursor = 64;
    int ntasks = 2;
    uint64_t sseed = 1;
    std::string prop = "C16";
    for (auto &line : sim::split_lines(text)) {
        if (line.empty() || line[0] == '#') continue;
        sim::KV kv(line);
        if (kv.op == "plan") prop = kv.str("prop", "C16");
        else if (kv.op == "cfg") {
            ntasks = (int)kv.u64("tasks", 2);
            if (ntasks < 1) ntasks = 1;
            if (ntasks > 6) ntasks = 6;
            std::string s = kv.str("sched", "none");
            size_t col = s.find(':');
            w.policy = s.substr(0, col);
            if (col != std::string::npos) { w.p = atof(s.c_str() + col + 1); w.pct_changes = atoi(s.c_str() + col + 1); }
            sseed = kv.u64("sseed", 1);
            w.guard_layout = kv.str("layout", "packed") == "guard";
            w.env_on = kv.u64("env", 0);
            w.hw = kv.u64("hw", 0);
            w.hw_static = !w.hw && kv.u64("hws", 0);
            w.on_worker_thread = kv.u64("thr", 0);
            w.oom = kv.u64("oom", 0);
            w.oom_seed = sseed ^ 0x00a110cULL;
            // a process-wide setting an application may well have made: a UTF-8 locale (MB_CUR_MAX > 1 switches multibyte code paths on)
            setlocale(LC_ALL, kv.u64("loc", 0) ? "C.UTF-8" : "C");
            if (w.guard_layout) cursor = kPage;
            w.prog.assign(ntasks, {});
        } else if (kv.op == "obj") {
            Obj o;
            o.id = (int)kv.u64("id");
            o.task = (int)kv.i64("task");
            o.size = kv.u64("size");
            o.seed = kv.u64("seed");
            o.shared = kv.u64("shared", 0);
            if (w.guard_layout) {
                // [guard page][object pages][guard page]: the object ends at the upper guard, or (every other object) starts at the lower one
                size_t pages = (o.size + kPage - 1) / kPage;
                if (cursor + (pages + 2) * kPage > kArenaSize || o.size == 0) continue;
                size_t base = cursor + kPage;  // first object page (cursor itself is the lower guard page)
                o.p = (o.seed & 4) ? kArena + base : kArena + base + pages * kPage - o.size;
                cursor = base + pages * kPage;  // the next object's lower guard = this object's upper guard
            } else {
                cursor += kv.u64("gap", 0);
                if (cursor + o.size + 64 > kArenaSize || o.size == 0) continue;
                o.p = kArena + cursor;
                cursor += o.size;
            }
            w.obj_index[o.id] = (int)w.objs.size();
            w.objs.push_back(o);
        } else if (kv.op == "call") {
            Call c;
            c.task = (int)kv.i64("t");
            if (c.task >= ntasks) continue;
            c.fn = kv.str("fn"); c.fmt = kv.str("fmt"); c.field = kv.str("f"); c.via = kv.str("via");
            c.obj = (int)kv.i64("obj", -1); c.obj2 = (int)kv.i64("obj2", -1); c.obj3 = (int)kv.i64("obj3", -1);
            c.a = kv.u64("a"); c.b = kv.u64("b"); c.c = kv.u64("c"); c.d = kv.u64("d"); c.v = kv.u64("v");
            if (c.fn == "vss_strarr") { c.a = kv.u64("n"); c.field = kv.str("lens"); c.objs = parse_ints(kv.str("srcs")); c.objs2 = parse_ints(kv.str("dsts")); }
            if (c.task < 0) w.setup.push_back(c);
            else w.prog[c.task].push_back(c);
        }
    }
    if (sim::g_shm) snprintf(sim::g_shm->context, sizeof sim::g_shm->context, "%s", prop.c_str());
    // ownership sanity of the plan itself: calls naming another task's object are dropped
    for (size_t t = 0; t < w.prog.size(); t++) {
        auto &pr = w.prog[t];
        pr.erase(std::remove_if(pr.begin(), pr.end(), [&](const Call &c) {
                     auto okobj = [&](int id, bool allow_shared) { if (id < 0) return true; Obj *o = obj(id); return o && (o->task == (int)t || (allow_shared && o->shared)); };
                     if (!okobj(c.obj, true) || !okobj(c.obj2, c.fn == "vss_encode_from") || !okobj(c.obj3, false)) return true;
                     for (int i : c.objs) if (!okobj(i, false)) return true;
                     for (int i : c.objs2) if (!okobj(i, false)) return true;
                     return false;
                 }), pr.end());
    }
    w.setup.erase(std::remove_if(w.setup.begin(), w.setup.end(), [&](const Call &c) {
                      auto sh = [&](int id) { if (id < 0) return true; Obj *o = obj(id); return o && o->shared; };
                      return !sh(c.obj) || !sh(c.obj2) || !sh(c.obj3) || !c.objs.empty();
                  }), w.setup.end());
    // phase 1: sequential reference (monitor on, no preemption)
    w.rng.reseed(sseed);
    std::string saved_policy = w.policy;
    StaticSnap st0 = take_static();
    Snapshot seq = run_phase(false);
    ev("phase", 1, hash_bytes(seq.arena.data(), seq.arena.size()), 0);
    check_static(st0, "sequential");
    // phase 2: interleaved
    w.rng.reseed(sseed);
    w.policy = saved_policy;
    Snapshot par = run_phase(true);
    ev("phase", 2, hash_bytes(par.arena.data(), par.arena.size()), w.preemptions);
    check_static(st0, "interleaved");
    for (size_t t = 0; t < seq.results.size(); t++) {
        size_t n = std::min(seq.results[t].size(), par.results[t].size());
        for (size_t i = 0; i < n; i++)
            if (seq.results[t][i] != par.results[t][i])
                violation("seq-mismatch:" + w.result_fn[t][i], strf("call #%zu of task %zu (%s) returned 0x%llx when interleaved with other tasks' calls and 0x%llx when run alone", i, t,
                                                                    w.result_fn[t][i].c_str(), (unsigned long long)par.results[t][i], (unsigned long long)seq.results[t][i]));
        if (seq.results[t].size() != par.results[t].size()) violation("seq-mismatch:count", "different number of completed calls");
    }
    if (seq.arena != par.arena) {
        size_t i = 0;
        while (i < kArenaSize && seq.arena[i] == par.arena[i]) i++;
        violation("seq-mismatch:memory", strf("after the interleaved execution %s differs from the sequential execution (0x%02x vs 0x%02x)", describe_addr((uintptr_t)kArena + i).c_str(),
                                              par.arena[i], seq.arena[i]));
    }
    g_res.status = 0;
    g_res.digest = w.digest.h;
    g_res.events = w.events;
    g_res.sched_digest = w.preemptions * 1315423911ULL ^ w.digest.h;
    g_res.nontrivial = w.preemptions > 0 && w.prog.size() >= 2;
    g_res.counters["calls"] = w.calls;
    g_res.counters["static_bytes_compared"] = w.static_bytes;
    g_res.counters["loads_checked"] = w.loads;
    g_res.counters["stores_checked"] = w.stores;
    g_res.counters["preemptions"] = w.preemptions;
    g_res.counters["preemption_points"] = w.points;
    g_res.counters["probe.preempted_inside_library_call"] = w.pr_inside;
    g_res.counters["probe.preempted_between_load_and_store_of_one_quadlet"] = w.pr_rmw;
    g_res.counters["probe.preempted_inside_call_on_shared_pdu"] = w.pr_shared;
    g_res.counters["probe.load_from_writable_static"] = w.pr_static_load;
    g_res.counters["probe.load_from_unknown_region"] = w.pr_unknown_load;
    g_res.counters["probe.calls_with_invalid_arguments"] = w.pr_badargs;
    g_res.counters["library_heap_blocks"] = w.pr_heap;
    if (bind_nextras || bind_nextras_p) g_res.counters["calls_of_new_api"] = w.pr_extra;
    if (w.pr_env) g_res.counters["environment_lookups_by_library_code"] = w.pr_env;
    if (w.pr_libc_state) g_res.counters["libc_calls_with_state_object_by_library_code"] = w.pr_libc_state;
    if (w.pr_libc_dest) g_res.counters["libc_calls_writing_through_a_pointer_by_library_code"] = w.pr_libc_dest;
    if (w.hw_static) g_res.counters[w.hw_failed ? "hw_watchpoints.unavailable" : "hw_watchpoints.runs_watching_static_storage"] = 1;
    if (w.hw) { g_res.counters[w.hw_failed ? "hw_watchpoints.unavailable" : "hw_watchpoints.runs"] = 1; g_res.counters["hw_watchpoints.calls_watched"] = w.pr_hw_armed; }
    if (w.oom) g_res.counters["cfg.library_allocations_may_fail"] = 1;
    if (w.pr_oom) g_res.counters["fault.library_allocation_failed"] = w.pr_oom;
    if (w.on_worker_thread) g_res.counters[syscall(SYS_gettid) != getpid() ? "cfg.run_on_a_second_os_thread" : "cfg.second_os_thread_unavailable"] = 1;
    g_res.counters["scen." + saved_policy] = 1;
    g_res.counters[w.guard_layout ? "layout.guard_pages" : "layout.packed"] = 1;
    sim::finish_run(g_res);
}

static sim::RunResult on_crash(const sim::CrashInfo &ci) {
    sim::RunResult r;
    if (ci.kind == sim::CrashInfo::SIGNAL || (ci.kind == sim::CrashInfo::EXITCODE && ci.exit_code >= 128)) {
        // note = "pc=0x..." written by the fatal signal handler
        uint64_t pc = 0;
        size_t p = ci.note.find("pc=");
        if (p != std::string::npos) pc = strtoull(ci.note.c_str() + p + 3, nullptr, 16);
        size_t hp = ci.note.find("hw=");
        if (hp != std::string::npos) {
            size_t cp = ci.note.find(" call=");
            std::string call = cp == std::string::npos ? "?" : ci.note.substr(cp + 6, ci.note.find(' ', cp + 1) - cp - 6);
            std::string fn = pc && sim::g_symtab.is_repo(pc) ? sim::g_symtab.func(pc) : call;
            r.status = 1;
            r.nontrivial = true;
            r.sig = "reent:shared-state:hw-store:" + fn;
            r.detail = strf("a store that no instrumentation callback announced (inline assembly, a libc function, or code opted out of instrumentation) hit a hardware "
                            "watchpoint during %s: %s - memory that is not part of an object passed to the call (a store that writes back what it read still loses a concurrent update of the neighbour)",
                            call.c_str(), ci.note.c_str() + hp + 3);
            return r;
        }
        size_t gp = ci.note.find("guard=");
        if (gp != std::string::npos && ci.note.find("incall=1") != std::string::npos && !(pc && sim::g_symtab.is_repo(pc))) {
            // the fault happened in a callee of the library (libc string/memory function) during a library call
            size_t cp = ci.note.find(" call=");
            std::string call = cp == std::string::npos ? "?" : ci.note.substr(cp + 6, ci.note.find(' ', cp + 1) - cp - 6);
            r.status = 1;
            r.nontrivial = true;
            r.sig = "reent:shared-state:guard:" + call;
            r.detail = strf("a libc function called on behalf of %s touched memory outside the objects passed in (page protection): %s", call.c_str(), ci.note.c_str() + gp + 6);
            return r;
        }
        if (pc && sim::g_symtab.is_repo(pc)) {
            r.status = 1;
            r.nontrivial = true;
            if (gp != std::string::npos) {
                r.sig = strf("reent:shared-state:guard:%s", sim::g_symtab.func(pc).c_str());
                r.detail = strf("%s() touched memory outside the objects passed to it (page protection): %s", sim::g_symtab.func(pc).c_str(), ci.note.c_str() + gp + 6);
            } else {
                r.sig = strf("reent:crash:%s", sim::g_symtab.func(pc).c_str());
                r.detail = strf("fatal signal in %s() (%s)", sim::g_symtab.func(pc).c_str(), ci.note.c_str());
            }
            return r;
        }
    }
    r.status = 2;
    r.sig = "harness";
    r.detail = strf("child died (kind %d, signal %d, exit %d, note %s): ", (int)ci.kind, ci.sig, ci.exit_code, ci.note.c_str()) + ci.raw.substr(0, 400);
    return r;
}

static void fatal_handler(int sig, siginfo_t *si, void *uc) {
    ucontext_t *u = (ucontext_t *)uc;
    char what[160] = "";
    uintptr_t a = (uintptr_t)si->si_addr;
    if (W && (sig == SIGSEGV || sig == SIGBUS) && a >= (uintptr_t)kArena && a < (uintptr_t)kArena + kArenaSize) {
        // which object is the faulting address next to / inside?
        const Obj *best = nullptr;
        long best_d = 1L << 40;
        for (auto &o : W->objs) {
            long d = a < (uintptr_t)o.p ? (long)((uintptr_t)o.p - a) : a >= (uintptr_t)o.p + o.size ? (long)(a - ((uintptr_t)o.p + o.size) + 1) : 0;
            if (d < best_d) { best_d = d; best = &o; }
        }
        int cur = W->tasks.cur() ? W->tasks.cur()->id : -1;
        if (best && best_d == 0)
            snprintf(what, sizeof what, " guard=task-%d-%s-byte-%ld-of-%s-object-%d(task-%d,%zu-bytes)", cur, (u->uc_mcontext.gregs[REG_ERR] & 2) ? "wrote" : "read",
                     (long)(a - (uintptr_t)best->p), best->shared ? "shared-read-only" : "foreign", best->id, best->task, best->size);
        else if (best)
            snprintf(what, sizeof what, " guard=task-%d-%s-%ld-byte(s)-%s-object-%d(task-%d,%zu-bytes)", cur, (u->uc_mcontext.gregs[REG_ERR] & 2) ? "wrote" : "read",
                     a < (uintptr_t)best->p ? (long)((uintptr_t)best->p - a) : (long)(a - ((uintptr_t)best->p + best->size) + 1),
                     a < (uintptr_t)best->p ? "before-the-start-of" : "past-the-end-of", best->id, best->task, best->size);
    }
    if (W && sig == SIGTRAP && W->tasks.cur()) {
        int cur = W->tasks.cur()->id;
        const World::HwWatch &h = W->hw_task[cur & 7];
        if (h.obj == -2) {
            snprintf(what, sizeof what, " hw=task-%d-stored-to-the-library's-writable-static-storage-at-%p", cur, (void *)a);
        } else {
        const Obj *o = nullptr;
        bool is_dst = h.obj_dst >= 0 && ((h.len[2] && a >= h.addr[2] && a < h.addr[2] + 8) || (h.len[3] && a >= h.addr[3] && a < h.addr[3] + 8));
        for (auto &x : W->objs) if (x.id == (is_dst ? h.obj_dst : h.obj)) o = &x;
        bool after = o && a >= (uintptr_t)o->p + o->size;
        snprintf(what, sizeof what, " hw=task-%d-stored-to-the-bytes-%s-object-%d(%zu-bytes)-of-its-call", cur, after ? "right-behind" : "right-before", o ? o->id : -1, o ? o->size : (size_t)0);
        }
    }
    bool incall = W && W->tasks.cur() && W->in_call[W->tasks.cur()->id];
    if (sim::g_shm) snprintf(sim::g_shm->note, sizeof sim::g_shm->note, "pc=0x%llx signal=%d addr=0x%llx incall=%d call=%s%s", (unsigned long long)u->uc_mcontext.gregs[REG_RIP], sig,
                             (unsigned long long)a, (int)incall, incall ? W->cur_fn : "-", what);
    _exit(128 + sig);
}

static void exec_entry(const std::string &text, bool verbose) {
    static uint8_t altstack[65536];
    stack_t ss = {altstack, 0, sizeof altstack};
    sigaltstack(&ss, nullptr);
    struct sigaction sa;
    memset(&sa, 0, sizeof sa);
    sa.sa_sigaction = fatal_handler;
    sa.sa_flags = SA_SIGINFO | SA_ONSTACK;
    for (int s : {SIGSEGV, SIGBUS, SIGFPE, SIGILL, SIGABRT, SIGTRAP}) sigaction(s, &sa, nullptr);
    // A library is mostly called from threads other than the initial one; code can tell (gettid() != getpid(), stack limits, ...).
    // In the runs that say so the whole execution - set-up, sequential and interleaved phase - takes place on a second OS thread.
    if (text.find(" thr=1") != std::string::npos) {
        struct Arg { const std::string *text; bool verbose; } arg{&text, verbose};
        pthread_attr_t at;
        pthread_attr_init(&at);
        pthread_attr_setstacksize(&at, 16u << 20);
        pthread_t th;
        auto body = [](void *p) -> void * {
            static uint8_t altstack2[65536];
            stack_t ss2 = {altstack2, 0, sizeof altstack2};
            sigaltstack(&ss2, nullptr);
            Arg *a = (Arg *)p;
            exec(*a->text, a->verbose);
            return nullptr;
        };
        if (pthread_create(&th, &at, body, &arg) == 0) { pthread_join(th, nullptr); return; }
    }
    exec(text, verbose);
}

}  // namespace reent

int main(int argc, char **argv) {
    sim::Engine e;
    e.name = REENT_ENGINE_NAME;
    e.property = "C16";
    e.gen = reent::gen;
    e.exec = reent::exec_entry;
    e.on_crash = reent::on_crash;
    e.deletable = [](const std::string &l) { return l.compare(0, 4, "call") == 0; };
    e.rule = "one run = 2-4 caller tasks with seeded programs (10-60 calls each) over every public function: field accessors of all 23 formats through generic/"
             "dedicated/legacy entry points, the ACF-CAN builders, the VSS codec and string-array functions, on own objects of exact size laid out interleaved "
             "in one arena, plus getters on one shared read-only PDU; executed once sequentially and once interleaved with preemption at instrumented edges/"
             "loads/stores of library code (policy stratified by run index: none, p=0.001..0.33, PCT, after-store); distinct = distinct event-log digest "
             "(includes every preemption decision); non-trivial = at least one preemption inside a library call with >= 2 tasks";
    e.probes = {"probe.preempted_inside_library_call", "probe.preempted_between_load_and_store_of_one_quadlet", "probe.preempted_inside_call_on_shared_pdu", "probe.calls_with_invalid_arguments"};
    e.real_components = {"libopen1722 + libopen1722custom built from /repo/src at -O0 with sanitizer-coverage trace-pc-guard,trace-loads,trace-stores",
                         "call bindings generated from /repo/include; hand-written drivers for builders/VSS codec"};
    e.stub_components = {"caller threads (fibers under the seeded scheduler)", "memcpy/memset/memmove (wrapped: checked, then forwarded to libc)"};
    e.assumptions = {"sequentially consistent interleavings at instrumented-access granularity (no weak-memory effects)",
                     "only calls valid under their documented preconditions are generated", "loads from writable static storage that nobody writes are counted, not reported"};
    {   // public functions that appeared in the headers and that nothing here calls: said out loud, and recorded as an assumption
        std::string un;
        for (unsigned i = 0; i < bind_nformats; i++)
            for (unsigned k = 0; k < bind_formats[i]->nfuncs; k++)
                if (bind_formats[i]->funcs[k].kind == 7) {
                    bool called = false;  // (new API without pointer parameters is called through its generated thunk)
                    for (unsigned x = 0; x < bind_nextras; x++) called |= !strcmp(bind_extras[x].name, bind_formats[i]->funcs[k].name);
                    for (unsigned x = 0; x < bind_nextras_p; x++) called |= !strcmp(bind_extras_p[x].name, bind_formats[i]->funcs[k].name);
                    if (!called) un += std::string(un.empty() ? "" : ", ") + bind_formats[i]->funcs[k].name;
                }
        for (unsigned i = 0; bind_new_uncallable[i]; i++)
            if (un.find(bind_new_uncallable[i]) == std::string::npos) un += std::string(un.empty() ? "" : ", ") + bind_new_uncallable[i];
        if (!un.empty()) {
            fprintf(stderr, "warning: public functions not exercised by any generated call or driver: %s\n", un.c_str());
            e.assumptions.push_back("NOT EXERCISED (no generated call, no driver): " + un);
        }
    }
    // library code that READS writable static storage is not reported as a violation (a table that merely lost its `const` changes
    // nothing), but it is never silent: somebody may write that storage through an entry point that no generated call reaches
    e.expect_zero = {"probe.load_from_writable_static", "probe.load_from_unknown_region"};
    e.quick_runs = 13800;
    e.thorough_runs = 690000;
    e.quick_wall_cap = 150;
    e.thorough_wall_cap = 1500;
#ifdef REENT_VARIANT_GCC
    // second build: the library as the repository's own default toolchain compiles it (gcc -O2). gcc's coverage instrumentation offers
    // basic-block callbacks only; the access callbacks come from its thread-sanitizer pass (-fsanitize=thread), answered by this engine.
    e.rule = "same plans as the clang build, executed against the library compiled by gcc -O2 -fsanitize-coverage=trace-pc -fsanitize=thread (the __tsan_read/write "
             "callbacks are implemented by the engine, no sanitizer runtime): preemption at basic blocks and at memory accesses of library code, access ownership, "
             "results and memory compared with the sequential execution, .data/.bss of the library compared before/after; distinct = distinct event-log "
             "digest; non-trivial = at least one preemption inside a library call with >= 2 tasks";
    e.real_components = {"libopen1722 + libopen1722custom built from /repo/src by gcc -O2 with -fsanitize-coverage=trace-pc -fsanitize=thread (callbacks only)",
                         "call bindings generated from /repo/include and compiled by gcc -O2; hand-written drivers for builders/VSS codec"};
    e.probes = {"probe.preempted_inside_library_call", "probe.preempted_inside_call_on_shared_pdu", "probe.calls_with_invalid_arguments"};
    e.quick_runs = 4600;
    e.thorough_runs = 230000;
    e.quick_wall_cap = 60;
    e.thorough_wall_cap = 500;
#endif
#ifdef REENT_VARIANT_O2
    // third build: the access-instrumented build again, optimised (clang -O2 -DNDEBUG): code that only exists under __OPTIMIZE__ / NDEBUG
    e.real_components = {"libopen1722 + libopen1722custom built from /repo/src by clang -O2 -DNDEBUG with sanitizer-coverage trace-pc-guard,trace-loads,trace-stores",
                         "call bindings generated from /repo/include; hand-written drivers for builders/VSS codec"};
    e.quick_runs = 4600;
    e.thorough_runs = 230000;
    e.quick_wall_cap = 60;
    e.thorough_wall_cap = 500;
#endif
    return sim::driver_main(argc, argv, e);
}
