# Builds the simulator core and the engines. Everything compiled from /repo is rebuilt from the
# current working tree on every invocation that finds a changed source or header.
REPO ?= /repo
B    := build
CC   := clang
CXX  := clang++

# which sources form the libraries, and the preprocessor definitions they and the examples are built with, come from the
# repository's own CMake description (tools/repo_config.py: configure-only probe, cached; falls back to src/**/*.c)
_repo_cfg := $(shell mkdir -p $(B) && python3 tools/repo_config.py $(REPO) $(B) 2>>$(B)/repo_config.log)
include $(B)/repo_config.mk
REPO_HDRS := $(shell find $(REPO)/include $(REPO)/examples -name '*.h' | sort)
EX := $(REPO)/examples

SIM_CXXFLAGS := -std=gnu++17 -O1 -g -Wall -Wno-unused-function -fno-omit-frame-pointer
COV := -fsanitize-coverage=trace-pc-guard,pc-table
REPO_CFLAGS_COMMON := $(REPO_STD) -g -fno-omit-frame-pointer -U_FORTIFY_SOURCE -D_FORTIFY_SOURCE=0 -I$(REPO)/include $(REPO_EXTRA_INCS) -w

# ---------------------------------------------------------------- net engine (C18, C19)
NET_SAN := -fsanitize=address,bounds,integer-divide-by-zero -fno-sanitize-recover=all
# the optimised variants are built like a Release build (-DNDEBUG: assert() vanishes, with whatever it contained); the -O0 variants keep assert()
NET_REPO_CFLAGS := $(REPO_CFLAGS_COMMON) -O1 -DNDEBUG -fno-inline $(NET_SAN) $(COV) -I$(EX)
NETB := $(B)/net
NET_LIB_OBJS := $(patsubst $(REPO)/src/%.c,$(NETB)/lib/%.o,$(LIB_SRCS))
NET_WRAPS := socket bind ioctl setsockopt close recv sendto read write poll clock_gettime clock_nanosleep sleep timerfd_create timerfd_settime rand exit malloc calloc realloc free getenv secure_getenv isatty connect sigaction signal alarm setlocale
NET_WRAPFLAGS := $(foreach w,$(NET_WRAPS),-Wl,--wrap=$(w))

# example program -> main symbol
define EXRULE
$(NETB)/ex/$(1).o: $(EX)/$(2) $(REPO_HDRS) Makefile $(B)/repo_config.mk | dirs
	$(CC) $(NET_REPO_CFLAGS) $(REPO_EX_DEFS) -Dmain=$(3) -c $$< -o $$@
NET_EX_OBJS += $(NETB)/ex/$(1).o
endef
$(eval $(call EXRULE,acf-can-talker,acf-can/acf-can-talker.c,acf_can_talker_main))
$(eval $(call EXRULE,acf-can-listener,acf-can/acf-can-listener.c,acf_can_listener_main))
$(eval $(call EXRULE,acf-can-common,acf-can/acf-can-common.c,unused_main_1))
$(eval $(call EXRULE,cvf-talker,cvf/cvf-talker.c,cvf_talker_main))
$(eval $(call EXRULE,cvf-listener,cvf/cvf-listener.c,cvf_listener_main))
$(eval $(call EXRULE,aaf-talker,aaf/aaf-talker.c,aaf_talker_main))
$(eval $(call EXRULE,aaf-listener,aaf/aaf-listener.c,aaf_listener_main))
$(eval $(call EXRULE,hello-world-talker,hello-world/hello-world-talker.c,hello_world_talker_main))
$(eval $(call EXRULE,hello-world-listener,hello-world/hello-world-listener.c,hello_world_listener_main))
$(eval $(call EXRULE,acf-vss-talker,acf-vss/acf-vss-talker.c,acf_vss_talker_main))
$(eval $(call EXRULE,acf-vss-listener,acf-vss/acf-vss-listener.c,acf_vss_listener_main))
$(eval $(call EXRULE,crf-talker,crf/crf-talker.c,crf_talker_main))
$(eval $(call EXRULE,crf-listener,crf/crf-listener.c,crf_listener_main))
$(eval $(call EXRULE,crf-listener-b,crf/crf-listener.c,crf_listener_b_main))
$(eval $(call EXRULE,common,common/common.c,unused_main_2))

$(NETB)/lib/%.o: $(REPO)/src/%.c $(REPO_HDRS) Makefile $(B)/repo_config.mk | dirs
	@mkdir -p $(dir $@)
	$(CC) $(NET_REPO_CFLAGS) $(REPO_LIB_DEFS) -c $< -o $@

NET_SIM_SRCS := sim/task.cc sim/driver.cc sim/symtab.cc sim/cov.cc engines/net/world.cc engines/net/exec.cc engines/net/gen.cc engines/net/main.cc
NET_SIM_OBJS := $(patsubst %.cc,$(NETB)/sim/%.o,$(NET_SIM_SRCS))
SIM_HDRS := $(wildcard sim/*.h engines/net/*.h spec/*.h)

$(NETB)/sim/%.o: %.cc $(SIM_HDRS) Makefile | dirs
	@mkdir -p $(dir $@)
	$(CXX) $(SIM_CXXFLAGS) -fsanitize=address -c $< -o $@

$(NETB)/marker_begin.o: sim/marker_begin.c | dirs
	$(CC) -O1 -fno-common -c $< -o $@
$(NETB)/marker_end.o: sim/marker_end.c | dirs
	$(CC) -O1 -fno-common -c $< -o $@

# second copy of the example programs at -O0 (locals live on the stack: uninitialised pointers read the 0xA5 fill)
# (plain char is unsigned in the -O0 copies, as on AArch64/ARM Linux: C code must work with either signedness)
NET_REPO_CFLAGS_O0 := $(REPO_CFLAGS_COMMON) -O0 -march=native -funsigned-char $(NET_SAN) $(COV) -I$(EX)
EX_SRCS := $(shell find $(EX) -name '*.c' | sort)
$(NETB)/examples_O0.o: $(EX_SRCS) $(LIB_SRCS) $(REPO_HDRS) Makefile tools/build_o0.sh $(B)/repo_config.mk | dirs
	tools/build_o0.sh $(NETB)/exO0 $@ "$(CC)" "$(NET_REPO_CFLAGS_O0) $(REPO_EX_DEFS)" $(EX) "$(REPO_LIB_DEFS)" $(LIB_SRCS)

# third copy: programs and library as the repository's own default toolchain compiles them (gcc, -O2). What the C standard leaves to the
# compiler (order of evaluation of arguments and operands, layout of locals, what an optimiser does with undefined behaviour) differs
# between gcc and clang; gcc's address/bounds instrumentation reports to the same sanitizer runtime, its basic-block callback is trace-pc
NET_REPO_CFLAGS_G := $(REPO_STD) -g -fno-omit-frame-pointer -U_FORTIFY_SOURCE -D_FORTIFY_SOURCE=0 -I$(REPO)/include $(REPO_EXTRA_INCS) -w -O2 -DNDEBUG \
	-fsanitize=address,bounds,integer-divide-by-zero -fno-sanitize-recover=all -fsanitize-coverage=trace-pc -I$(EX)
$(NETB)/examples_G.o: $(EX_SRCS) $(LIB_SRCS) $(REPO_HDRS) Makefile tools/build_o0.sh $(B)/repo_config.mk | dirs
	COPY_PREFIX=G_ tools/build_o0.sh $(NETB)/exG $@ "gcc" "$(NET_REPO_CFLAGS_G) $(REPO_EX_DEFS)" $(EX) "$(REPO_LIB_DEFS)" $(LIB_SRCS)

$(B)/net_sim: $(NETB)/marker_begin.o $(NET_LIB_OBJS) $(NET_EX_OBJS) $(NETB)/examples_O0.o $(NETB)/examples_G.o $(NETB)/marker_end.o $(NET_SIM_OBJS)
	$(CXX) -no-pie -fsanitize=address,bounds,integer-divide-by-zero $(NET_WRAPFLAGS) -o $@ $(NETB)/marker_begin.o $(NET_LIB_OBJS) $(NET_EX_OBJS) $(NETB)/examples_O0.o $(NETB)/examples_G.o $(NETB)/marker_end.o $(NET_SIM_OBJS) -lm

net: $(B)/net_sim
# dictionary of the integer literals in the example programs (tools/src_literals.py), compiled into the net engine's generators
$(B)/src_literals.inc: $(EX_SRCS) $(REPO_HDRS) tools/src_literals.py | dirs
	python3 tools/src_literals.py $(EX) > $@.tmp && mv $@.tmp $@
$(NETB)/sim/engines/net/gen.o: $(B)/src_literals.inc

# ---------------------------------------------------------------- call bindings generated from /repo/include
GEN := $(B)/gen
FORMATS := $(shell awk '$$1=="format"{print $$2}' spec/fields.def)
BIND_SRCS := $(patsubst %,$(GEN)/bind_%.c,$(FORMATS)) $(GEN)/bind_all.c $(GEN)/bind_extra.c
$(GEN)/stamp: tools/gen_bindings.py spec/fields.def bindings/baseline_api.txt $(REPO_HDRS) Makefile | dirs
	@mkdir -p $(GEN)
	python3 tools/gen_bindings.py $(REPO)/include spec/fields.def $(GEN) 2>$(GEN)/gen.log
	@touch $@
$(BIND_SRCS) $(GEN)/all_headers_az.h $(GEN)/all_headers_za.h: $(GEN)/stamp
DRV_SRCS := engines/reent/drv_can.c engines/reent/drv_canbrief.c engines/reent/drv_vss.c
DRVVAR_DEPS := $(DRV_SRCS) engines/reent/drivers.h tools/build_drv_variants.sh $(GEN)/stamp $(REPO_HDRS)

# ---------------------------------------------------------------- rec engine (C05): same instrumented library objects as net
RECB := $(B)/rec
REC_BIND_OBJS := $(patsubst $(GEN)/%.c,$(RECB)/%.o,$(BIND_SRCS))
$(RECB)/bind_%.o: $(GEN)/bind_%.c bindings/bind.h $(REPO_HDRS) | dirs
	@mkdir -p $(RECB)
	$(CC) $(REPO_STD) -O2 -g -fsanitize=address -I$(REPO)/include $(REPO_EXTRA_INCS) -Ibindings -w -c $< -o $@
REC_SIM_SRCS := sim/task.cc sim/driver.cc sim/symtab.cc sim/cov.cc engines/rec/rec.cc
REC_SIM_OBJS := $(patsubst %.cc,$(RECB)/sim/%.o,$(REC_SIM_SRCS))
$(RECB)/sim/%.o: %.cc $(wildcard sim/*.h spec/*.h bindings/*.h engines/reent/drivers.h) Makefile | dirs
	@mkdir -p $(dir $@)
	$(CXX) $(SIM_CXXFLAGS) -fsanitize=address -c $< -o $@
REC_DRV_OBJS := $(B)/reent/drv_can.o $(B)/reent/drv_canbrief.o $(B)/reent/drv_vss.o $(RECB)/drvvar.o $(RECB)/bindS.o
# the generated bindings again, behind the system headers that the example programs include (S_)
BINDS_DEPS := $(BIND_SRCS) bindings/bind.h tools/build_bind_variant.sh $(REPO_HDRS) $(EX_SRCS)
$(RECB)/bindS.o: $(BINDS_DEPS) | dirs
	tools/build_bind_variant.sh $@ $(RECB)/bindS "$(CC)" "$(REPO_STD) -O2 -g -fsanitize=address -I$(REPO)/include $(REPO_EXTRA_INCS) -Ibindings -w" $(EX) $(BIND_SRCS)
# the drivers again, behind all public headers in alphabetical / reverse order (A_, Z_)
$(RECB)/drvvar.o: $(DRVVAR_DEPS) | dirs
	tools/build_drv_variants.sh $@ $(RECB)/drvvar "$(CC)" "$(REPO_STD) -O1 -g -I$(REPO)/include $(REPO_EXTRA_INCS) -Iengines/reent -w" $(GEN)/all_headers_az.h $(GEN)/all_headers_za.h $(DRV_SRCS)
$(B)/rec_sim: $(NETB)/marker_begin.o $(NET_LIB_OBJS) $(NETB)/marker_end.o $(REC_BIND_OBJS) $(REC_DRV_OBJS) $(REC_SIM_OBJS)
	$(CXX) -no-pie -fsanitize=address,bounds,integer-divide-by-zero -o $@ $(NETB)/marker_begin.o $(NET_LIB_OBJS) $(NETB)/marker_end.o $(REC_BIND_OBJS) $(REC_DRV_OBJS) $(REC_SIM_OBJS) -lm
rec: $(B)/rec_sim

# ---------------------------------------------------------------- reent engine (C16): -O0, trace-loads/stores, no ASan
REENTB := $(B)/reent
REENT_REPO_CFLAGS := $(REPO_CFLAGS_COMMON) -O0 -fno-builtin -fsanitize-coverage=trace-pc-guard,pc-table,trace-loads,trace-stores
REENT_LIB_OBJS := $(patsubst $(REPO)/src/%.c,$(REENTB)/lib/%.o,$(LIB_SRCS))
$(REENTB)/lib/%.o: $(REPO)/src/%.c $(REPO_HDRS) Makefile $(B)/repo_config.mk | dirs
	@mkdir -p $(dir $@)
	$(CC) $(REENT_REPO_CFLAGS) $(REPO_LIB_DEFS) -c $< -o $@
REENT_BIND_OBJS := $(patsubst $(GEN)/%.c,$(REENTB)/%.o,$(BIND_SRCS))
$(REENTB)/bind_%.o: $(GEN)/bind_%.c bindings/bind.h $(REPO_HDRS) | dirs
	@mkdir -p $(REENTB)
	$(CC) $(REPO_STD) -O1 -g -I$(REPO)/include $(REPO_EXTRA_INCS) -Ibindings -w -c $< -o $@
REENT_WRAPFLAGS := $(foreach w,strtok rand srand localtime gmtime ctime asctime strerror setlocale malloc calloc realloc free getenv secure_getenv rand_r strtok_r random_r srandom_r initstate_r setstate_r drand48_r lrand48_r mrand48_r erand48_r nrand48_r jrand48_r srand48_r seed48_r lcong48_r mbrtowc mbrlen wcrtomb mbsrtowcs wcsrtombs mbrtoc32 mbrtoc16 c32rtomb c16rtomb localtime_r gmtime_r iconv iconv_close strcpy strncpy strcat strncat stpcpy stpncpy sprintf snprintf vsprintf vsnprintf memccpy mempcpy bzero explicit_bzero wmemcpy wmemmove wmemset strxfrm qsort wcscpy wcsncpy bcopy swab strtol strtoul strtoll strtoull strtod strtof $(shell cat engines/reent/libc_denylist.txt),-Wl,--wrap=$(w))
REENT_DRV_OBJS := $(REENTB)/drv_can.o $(REENTB)/drv_canbrief.o $(REENTB)/drv_vss.o
$(REENTB)/drv_%.o: engines/reent/drv_%.c engines/reent/drivers.h $(REPO_HDRS) | dirs
	@mkdir -p $(REENTB)
	$(CC) $(REPO_STD) -O1 -g -I$(REPO)/include $(REPO_EXTRA_INCS) -Iengines/reent -w -c $< -o $@
REENT_SIM_SRCS := sim/task.cc sim/driver.cc sim/symtab.cc sim/cov.cc engines/reent/reent.cc
REENT_SIM_OBJS := $(patsubst %.cc,$(REENTB)/sim/%.o,$(REENT_SIM_SRCS))
$(REENTB)/sim/%.o: %.cc $(wildcard sim/*.h spec/*.h bindings/*.h engines/reent/*.h engines/reent/*.inc engines/reent/*.txt) Makefile | dirs
	@mkdir -p $(dir $@)
	$(CXX) $(SIM_CXXFLAGS) -c $< -o $@
# a second pair of markers brackets the objects that play the application (generated bindings, hand-written drivers): what a public
# header makes the CALLER's translation unit contain (static inline functions with static locals) is library code as well
CMARK_DEFS := -Dverif_repo_text_begin=verif_caller_text_begin -Dverif_repo_data_begin=verif_caller_data_begin -Dverif_repo_bss_begin=verif_caller_bss_begin \
	-Dverif_repo_text_end=verif_caller_text_end -Dverif_repo_data_end=verif_caller_data_end -Dverif_repo_bss_end=verif_caller_bss_end
$(REENTB)/cmarker_begin.o: sim/marker_begin.c | dirs
	@mkdir -p $(REENTB)
	$(CC) -O1 -fno-common $(CMARK_DEFS) -c $< -o $@
$(REENTB)/cmarker_end.o: sim/marker_end.c | dirs
	@mkdir -p $(REENTB)
	$(CC) -O1 -fno-common $(CMARK_DEFS) -c $< -o $@
$(REENTB)/marker_begin.o: sim/marker_begin.c | dirs
	@mkdir -p $(REENTB)
	$(CC) -O1 -fno-common -c $< -o $@
$(REENTB)/marker_end.o: sim/marker_end.c | dirs
	@mkdir -p $(REENTB)
	$(CC) -O1 -fno-common -c $< -o $@
$(B)/reent_sim: $(REENTB)/marker_begin.o $(REENT_LIB_OBJS) $(REENTB)/marker_end.o $(REENTB)/cmarker_begin.o $(REENT_BIND_OBJS) $(REENT_DRV_OBJS) $(REENTB)/cmarker_end.o $(REENT_SIM_OBJS)
	$(CXX) -no-pie -Wl,--wrap=memcpy -Wl,--wrap=memset -Wl,--wrap=memmove $(REENT_WRAPFLAGS) -o $@ $(REENTB)/marker_begin.o $(REENT_LIB_OBJS) $(REENTB)/marker_end.o $(REENTB)/cmarker_begin.o $(REENT_BIND_OBJS) $(REENT_DRV_OBJS) $(REENTB)/cmarker_end.o $(REENT_SIM_OBJS) -lm
reent: $(B)/reent_sim

# ---------------------------------------------------------------- second build of the library: the repository's default toolchain (gcc)
# Code that is conditional on the compiler, and anything gcc's optimiser derives from the headers (attributes, inline definitions),
# is invisible to a clang-only build. reentg_sim / recg_sim run the same engines against the library and the bindings compiled by gcc -O2.
GCC := gcc
GLIBB := $(B)/glib
GCC_REPO_CFLAGS := $(REPO_STD) -O2 -DNDEBUG -g -fno-omit-frame-pointer -fno-common -U_FORTIFY_SOURCE -D_FORTIFY_SOURCE=0 -I$(REPO)/include $(REPO_EXTRA_INCS) -w
GCC_LIB_OBJS := $(patsubst $(REPO)/src/%.c,$(GLIBB)/lib/%.o,$(LIB_SRCS))
$(GLIBB)/lib/%.o: $(REPO)/src/%.c $(REPO_HDRS) Makefile $(B)/repo_config.mk | dirs
	@mkdir -p $(dir $@)
	$(GCC) $(GCC_REPO_CFLAGS) $(REPO_LIB_DEFS) -fsanitize-coverage=trace-pc -c $< -o $@
GCC_BIND_OBJS := $(patsubst $(GEN)/%.c,$(GLIBB)/%.o,$(BIND_SRCS))
$(GLIBB)/bind_%.o: $(GEN)/bind_%.c bindings/bind.h $(REPO_HDRS) | dirs
	@mkdir -p $(GLIBB)
	$(GCC) $(GCC_REPO_CFLAGS) -Ibindings -c $< -o $@
GCC_DRV_OBJS := $(GLIBB)/drv_can.o $(GLIBB)/drv_canbrief.o $(GLIBB)/drv_vss.o
$(GLIBB)/drv_%.o: engines/reent/drv_%.c engines/reent/drivers.h $(REPO_HDRS) | dirs
	@mkdir -p $(GLIBB)
	$(GCC) $(GCC_REPO_CFLAGS) -Iengines/reent -c $< -o $@
# (for C16 the gcc-built library additionally carries gcc's thread-sanitizer instrumentation: its __tsan_read/__tsan_write calls are the
#  access callbacks that gcc's coverage instrumentation lacks; the engine implements them, no sanitizer runtime is linked)
GCCT_LIB_OBJS := $(patsubst $(REPO)/src/%.c,$(GLIBB)/tlib/%.o,$(LIB_SRCS))
$(GLIBB)/tlib/%.o: $(REPO)/src/%.c $(REPO_HDRS) Makefile $(B)/repo_config.mk | dirs
	@mkdir -p $(dir $@)
	$(GCC) $(GCC_REPO_CFLAGS) $(REPO_LIB_DEFS) -fsanitize-coverage=trace-pc -fsanitize=thread -c $< -o $@
REENTG_SIM_OBJS := $(patsubst %.cc,$(GLIBB)/reent/%.o,$(REENT_SIM_SRCS))
$(GLIBB)/reent/%.o: %.cc $(wildcard sim/*.h spec/*.h bindings/*.h engines/reent/*.h engines/reent/*.inc engines/reent/*.txt) Makefile | dirs
	@mkdir -p $(dir $@)
	$(CXX) $(SIM_CXXFLAGS) -DREENT_VARIANT_GCC=1 -c $< -o $@
$(B)/reentg_sim: $(REENTB)/marker_begin.o $(GCCT_LIB_OBJS) $(REENTB)/marker_end.o $(REENTB)/cmarker_begin.o $(GCC_BIND_OBJS) $(GCC_DRV_OBJS) $(REENTB)/cmarker_end.o $(REENTG_SIM_OBJS)
	$(CXX) -no-pie -Wl,--wrap=memcpy -Wl,--wrap=memset -Wl,--wrap=memmove $(REENT_WRAPFLAGS) -o $@ $(REENTB)/marker_begin.o $(GCCT_LIB_OBJS) $(REENTB)/marker_end.o $(REENTB)/cmarker_begin.o $(GCC_BIND_OBJS) $(GCC_DRV_OBJS) $(REENTB)/cmarker_end.o $(REENTG_SIM_OBJS) -lm
reent: $(B)/reentg_sim
RECG_SIM_OBJS := $(patsubst %.cc,$(GLIBB)/rec/%.o,$(REC_SIM_SRCS))
$(GLIBB)/rec/%.o: %.cc $(wildcard sim/*.h spec/*.h bindings/*.h) Makefile | dirs
	@mkdir -p $(dir $@)
	$(CXX) $(SIM_CXXFLAGS) -fsanitize=address -DREC_VARIANT_GCC=1 -c $< -o $@
$(GLIBB)/drvvar.o: $(DRVVAR_DEPS) | dirs
	tools/build_drv_variants.sh $@ $(GLIBB)/drvvar "$(GCC)" "$(GCC_REPO_CFLAGS) -Iengines/reent" $(GEN)/all_headers_az.h $(GEN)/all_headers_za.h $(DRV_SRCS)
$(GLIBB)/bindS.o: $(BINDS_DEPS) | dirs
	tools/build_bind_variant.sh $@ $(GLIBB)/bindS "$(GCC)" "$(GCC_REPO_CFLAGS) -Ibindings" $(EX) $(BIND_SRCS)
$(B)/recg_sim: $(NETB)/marker_begin.o $(GCC_LIB_OBJS) $(NETB)/marker_end.o $(GCC_BIND_OBJS) $(GLIBB)/drv_can.o $(GLIBB)/drv_canbrief.o $(GLIBB)/drv_vss.o $(GLIBB)/drvvar.o $(GLIBB)/bindS.o $(RECG_SIM_OBJS)
	$(CXX) -no-pie -fsanitize=address -o $@ $(NETB)/marker_begin.o $(GCC_LIB_OBJS) $(NETB)/marker_end.o $(GCC_BIND_OBJS) $(GLIBB)/drv_can.o $(GLIBB)/drv_canbrief.o $(GLIBB)/drv_vss.o $(GLIBB)/drvvar.o $(GLIBB)/bindS.o $(RECG_SIM_OBJS) -lm
rec: $(B)/recg_sim

# ---------------------------------------------------------------- third build for C16: the instrumented build once more, optimised
# (clang -O2 -DNDEBUG with the same access callbacks): code under `#ifdef __OPTIMIZE__` / `NDEBUG` exists only in optimised builds, and
# the gcc -O2 build has no access callbacks to see it with
REENTO := $(B)/reento
REENTO_CFLAGS := $(REPO_CFLAGS_COMMON) -O2 -march=native -DNDEBUG -fno-builtin -fsanitize-coverage=trace-pc-guard,pc-table,trace-loads,trace-stores
REENTO_LIB_OBJS := $(patsubst $(REPO)/src/%.c,$(REENTO)/lib/%.o,$(LIB_SRCS))
$(REENTO)/lib/%.o: $(REPO)/src/%.c $(REPO_HDRS) Makefile $(B)/repo_config.mk | dirs
	@mkdir -p $(dir $@)
	$(CC) $(REENTO_CFLAGS) $(REPO_LIB_DEFS) -c $< -o $@
REENTO_SIM_OBJS := $(patsubst %.cc,$(REENTO)/sim/%.o,$(REENT_SIM_SRCS))
$(REENTO)/sim/%.o: %.cc $(wildcard sim/*.h spec/*.h bindings/*.h engines/reent/*.h engines/reent/*.inc engines/reent/*.txt) Makefile | dirs
	@mkdir -p $(dir $@)
	$(CXX) $(SIM_CXXFLAGS) -DREENT_VARIANT_O2=1 -c $< -o $@
$(B)/reento_sim: $(REENTB)/marker_begin.o $(REENTO_LIB_OBJS) $(REENTB)/marker_end.o $(REENTB)/cmarker_begin.o $(REENT_BIND_OBJS) $(REENT_DRV_OBJS) $(REENTB)/cmarker_end.o $(REENTO_SIM_OBJS)
	$(CXX) -no-pie -Wl,--wrap=memcpy -Wl,--wrap=memset -Wl,--wrap=memmove $(REENT_WRAPFLAGS) -o $@ $(REENTB)/marker_begin.o $(REENTO_LIB_OBJS) $(REENTB)/marker_end.o $(REENTB)/cmarker_begin.o $(REENT_BIND_OBJS) $(REENT_DRV_OBJS) $(REENTB)/cmarker_end.o $(REENTO_SIM_OBJS) -lm
reent: $(B)/reento_sim

# ---------------------------------------------------------------- third build for C05: no optimisation at all (what the repository's CMake does when no build type is given)
G0B := $(B)/g0
# (-march=native: code that is conditional on instruction-set macros - __SSE4_2__, __AVX2__, __BMI2__ ... - exists only in builds for a
#  named CPU, which distributions and users request through CMAKE_C_FLAGS; one build per engine is made for the CPU it runs on)
G0_CFLAGS := $(REPO_STD) -O0 -march=native -g -fno-common -U_FORTIFY_SOURCE -D_FORTIFY_SOURCE=0 -I$(REPO)/include $(REPO_EXTRA_INCS) -w
G0_LIB_OBJS := $(patsubst $(REPO)/src/%.c,$(G0B)/lib/%.o,$(LIB_SRCS))
$(G0B)/lib/%.o: $(REPO)/src/%.c $(REPO_HDRS) Makefile $(B)/repo_config.mk | dirs
	@mkdir -p $(dir $@)
	$(GCC) $(G0_CFLAGS) $(REPO_LIB_DEFS) -c $< -o $@
G0_BIND_OBJS := $(patsubst $(GEN)/%.c,$(G0B)/%.o,$(BIND_SRCS))
$(G0B)/bind_%.o: $(GEN)/bind_%.c bindings/bind.h $(REPO_HDRS) | dirs
	@mkdir -p $(G0B)
	$(GCC) $(G0_CFLAGS) -Ibindings -c $< -o $@
$(G0B)/drv_%.o: engines/reent/drv_%.c engines/reent/drivers.h $(REPO_HDRS) | dirs
	@mkdir -p $(G0B)
	$(GCC) $(G0_CFLAGS) -Iengines/reent -c $< -o $@
REC0_SIM_OBJS := $(patsubst %.cc,$(G0B)/rec/%.o,$(REC_SIM_SRCS))
$(G0B)/rec/%.o: %.cc $(wildcard sim/*.h spec/*.h bindings/*.h engines/reent/drivers.h) Makefile | dirs
	@mkdir -p $(dir $@)
	$(CXX) $(SIM_CXXFLAGS) -fsanitize=address -DREC_VARIANT_O0=1 -c $< -o $@
$(G0B)/drvvar.o: $(DRVVAR_DEPS) | dirs
	tools/build_drv_variants.sh $@ $(G0B)/drvvar "$(GCC)" "$(G0_CFLAGS) -Iengines/reent" $(GEN)/all_headers_az.h $(GEN)/all_headers_za.h $(DRV_SRCS)
$(G0B)/bindS.o: $(BINDS_DEPS) | dirs
	tools/build_bind_variant.sh $@ $(G0B)/bindS "$(GCC)" "$(G0_CFLAGS) -Ibindings" $(EX) $(BIND_SRCS)
$(B)/reco_sim: $(NETB)/marker_begin.o $(G0_LIB_OBJS) $(NETB)/marker_end.o $(G0_BIND_OBJS) $(G0B)/drv_can.o $(G0B)/drv_canbrief.o $(G0B)/drv_vss.o $(G0B)/drvvar.o $(G0B)/bindS.o $(REC0_SIM_OBJS)
	$(CXX) -no-pie -fsanitize=address -o $@ $(NETB)/marker_begin.o $(G0_LIB_OBJS) $(NETB)/marker_end.o $(G0_BIND_OBJS) $(G0B)/drv_can.o $(G0B)/drv_canbrief.o $(G0B)/drv_vss.o $(G0B)/drvvar.o $(G0B)/bindS.o $(REC0_SIM_OBJS) -lm
rec: $(B)/reco_sim

dirs:
	@mkdir -p $(B) $(NETB)/lib $(NETB)/ex $(NETB)/sim evidence replays

clean:
	rm -rf $(B)

.PHONY: net rec reent dirs clean
