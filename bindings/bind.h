/* Call bindings generated from /repo/include at build time (tools/gen_bindings.py): one table per
 * public header, each compiled in its own translation unit because the headers do not all coexist. */
#ifndef VERIF_BIND_H
#define VERIF_BIND_H
#include <stdint.h>
#ifdef __cplusplus
extern "C" {
#endif

typedef struct BindField {
    const char *name;      /* enumerator suffix, as in spec/fields.def */
    int field_id;          /* value of the repository's enumerator, -1 if the header has none */
    unsigned bit, width;   /* reference position (spec), MSB-first from byte 0 */
    uint64_t (*get)(void *pdu);
    unsigned get_bits;     /* width of the getter's return type */
    const char *get_name;
    void (*set)(void *pdu, uint64_t v);
    unsigned set_bits;     /* width of the setter's parameter type */
    const char *set_name;
    int legacy_id;         /* value of the legacy alias macro or -1 */
    const char *legacy_name;
    /* read, then write v (or initialise the header if with_init), then read again - direct calls in one function */
    uint64_t (*fused)(void *pdu, uint64_t v, uint64_t *before, int with_init);
    /* the dedicated setter called with a compile-time constant argument (what application code mostly does): cset[k] writes cval[k] */
    void (*const *cset)(void *pdu);
    const uint64_t *cval;
    unsigned ncset;
} BindField;

typedef struct BindFunc {  /* every prototype found in the header */
    const char *name;
    int kind;              /* 0 other (hand-written driver), 1 init, 2 getfield, 3 setfield, 4 getter, 5 setter, 6 legacy, 7 not exercised by anything */
    int bound;             /* 1 if reachable through the tables above */
} BindFunc;

typedef struct BindFormat {
    const char *name, *header;
    unsigned spec_bytes;        /* wire header size (spec) */
    const uint8_t *init_bytes;  /* canonical initialised header (spec) */
    unsigned sizeof_type;       /* sizeof the repository's header type */
    unsigned header_len_macro;  /* value of the repository's *_HEADER_LEN macro if found, else 0 */
    int field_max;
    void (*init)(void *pdu);
    uint64_t (*getfield)(void *pdu, int field);
    void (*setfield)(void *pdu, int field, uint64_t v);
    int (*legacy_get)(void *pdu, int field, uint64_t *val);
    int (*legacy_set)(void *pdu, int field, uint64_t val);
    int (*legacy_init)(void *pdu);
    unsigned legacy_val_bits;
    const BindField *fields;
    unsigned nfields;
    const BindFunc *funcs;
    unsigned nfuncs;
    int (*legacy_init2)(void *pdu, unsigned format_subtype);  /* avtp_cvf_pdu_init */
    int (*legacy_get_raw)(void *pdu, int field, void *val);   /* val passed through unchanged (may be NULL) */
} BindFormat;

/* pointer-free public functions that are not part of the baseline API (bindings/baseline_api.txt): callable without preconditions */
typedef struct BindExtra { const char *name; uint64_t (*fn)(uint64_t, uint64_t, uint64_t, uint64_t); unsigned nparams; } BindExtra;
/* new API whose only pointer parameter is the PDU of a known format (first parameter), the others being integers: called on a
 * well-formed PDU of that format */
/* (fmt2: the function takes a second PDU pointer, of that format, as its second parameter; the thunk receives it in its first integer) */
typedef struct BindExtraP { const char *name; uint64_t (*fn)(void *, uint64_t, uint64_t, uint64_t); unsigned nparams; const char *fmt; int is_const; const char *fmt2; int is_const2; } BindExtraP;
extern const BindExtraP bind_extras_p[];
extern const unsigned bind_nextras_p;
extern const BindExtra bind_extras[];
extern const unsigned bind_nextras;
extern const char *const bind_new_uncallable[];  /* new API that takes pointers: reported, not called */

/* set by an accessor thunk when the accessor evaluated an argument expression more than once (a macro) */
extern volatile unsigned bind_multi_eval;
extern const BindFormat *const bind_formats[];
extern const unsigned bind_nformats;

#ifdef __cplusplus
}
#endif
#endif
