// Reference bit packing for IEEE 1722 wire formats, written independently of the repository's
// field tables: fields are (first bit, width) counted from the most significant bit of byte 0,
// values are stored most significant bit first. Deliberately dumb: one bit at a time.
#pragma once
#include <cstddef>
#include <cstdint>
#include <vector>

namespace wire {

static inline void set_bits(uint8_t *buf, size_t bitoff, unsigned width, uint64_t v) {
    for (unsigned i = 0; i < width; i++) {
        unsigned bit = (width - 1 - i) < 64 ? (unsigned)((v >> (width - 1 - i)) & 1) : 0;
        size_t pos = bitoff + i;
        uint8_t m = (uint8_t)(0x80u >> (pos & 7));
        if (bit) buf[pos >> 3] |= m;
        else buf[pos >> 3] &= (uint8_t)~m;
    }
}
static inline uint64_t get_bits(const uint8_t *buf, size_t bitoff, unsigned width) {
    uint64_t v = 0;
    for (unsigned i = 0; i < width; i++) {
        size_t pos = bitoff + i;
        v = (v << 1) | ((buf[pos >> 3] >> (7 - (pos & 7))) & 1);
    }
    return v;
}
// bounds-checked variants on vectors (out-of-range bits are ignored / read as 0)
static inline void set_bits(std::vector<uint8_t> &b, size_t bitoff, unsigned width, uint64_t v) {
    for (unsigned i = 0; i < width; i++) {
        size_t pos = bitoff + i;
        if ((pos >> 3) >= b.size()) continue;
        unsigned bit = (unsigned)((v >> (width - 1 - i)) & 1);
        uint8_t m = (uint8_t)(0x80u >> (pos & 7));
        if (bit) b[pos >> 3] |= m;
        else b[pos >> 3] &= (uint8_t)~m;
    }
}
static inline uint64_t get_bits(const std::vector<uint8_t> &b, size_t bitoff, unsigned width) {
    uint64_t v = 0;
    for (unsigned i = 0; i < width; i++) {
        size_t pos = bitoff + i;
        unsigned bit = (pos >> 3) < b.size() ? (b[pos >> 3] >> (7 - (pos & 7))) & 1 : 0;
        v = (v << 1) | bit;
    }
    return v;
}

// ---- header sizes (bytes) per IEEE 1722-2016 / ACF-VSS description
constexpr size_t UDP_HDR = 4, NTSCF_HDR = 12, TSCF_HDR = 24, STREAM_HDR = 24, CRF_HDR = 20, H264_HDR = 4;
constexpr size_t ACF_CAN_HDR = 16, ACF_CAN_BRIEF_HDR = 8, ACF_GPC_HDR = 8, ACF_VSS_HDR = 12;
constexpr uint8_t SUBTYPE_AAF = 0x02, SUBTYPE_CVF = 0x03, SUBTYPE_CRF = 0x04, SUBTYPE_TSCF = 0x05, SUBTYPE_NTSCF = 0x82;
constexpr uint8_t ACF_CAN = 1, ACF_GPC = 5, ACF_VSS = 0x42;

struct Bytes : std::vector<uint8_t> {
    using std::vector<uint8_t>::vector;
    void put(size_t bitoff, unsigned w, uint64_t v) { wire::set_bits(*(std::vector<uint8_t> *)this, bitoff, w, v); }
    uint64_t get(size_t bitoff, unsigned w) const { return wire::get_bits(*(const std::vector<uint8_t> *)this, bitoff, w); }
    void append(const std::vector<uint8_t> &o) { insert(end(), o.begin(), o.end()); }
};

// NTSCF header: subtype(8) sv(1) version(3) r(1) ntscf_data_length(11) sequence_num(8) stream_id(64)
static inline Bytes ntscf_header(uint16_t data_len, uint8_t seq, uint64_t stream_id) {
    Bytes b(NTSCF_HDR, 0);
    b.put(0, 8, SUBTYPE_NTSCF); b.put(8, 1, 1); b.put(9, 3, 0); b.put(13, 11, data_len); b.put(24, 8, seq); b.put(32, 64, stream_id);
    return b;
}
// TSCF header: subtype(8) sv(1) version(3) mr(1) rsv(2) tv(1) sequence_num(8) rsv(7) tu(1) stream_id(64)
//              avtp_timestamp(32) rsv(32) stream_data_length(16) rsv(16)
static inline Bytes tscf_header(uint16_t data_len, uint8_t seq, uint64_t stream_id, uint32_t ts) {
    Bytes b(TSCF_HDR, 0);
    b.put(0, 8, SUBTYPE_TSCF); b.put(8, 1, 1); b.put(15, 1, 1); b.put(16, 8, seq); b.put(32, 64, stream_id); b.put(96, 32, ts);
    b.put(160, 16, data_len);
    return b;
}
// ACF CAN message: type(7) len(9) pad(2) mtv(1) rtr(1) eff(1) brs(1) fdf(1) esi(1) rsv(3) bus_id(5) ts(64) rsv(3) can_id(29) payload pad
struct CanMsg { uint32_t id; bool eff, rtr, brs, fdf, esi; std::vector<uint8_t> payload; uint64_t ts; uint8_t bus; };
static inline Bytes acf_can(const CanMsg &m) {
    size_t pl = m.payload.size();
    size_t pad = (4 - pl % 4) % 4;
    Bytes b(ACF_CAN_HDR + pl + pad, 0);
    b.put(0, 7, ACF_CAN); b.put(7, 9, (ACF_CAN_HDR + pl + pad) / 4); b.put(16, 2, pad); b.put(18, 1, 1); b.put(19, 1, m.rtr);
    b.put(20, 1, m.eff); b.put(21, 1, m.brs); b.put(22, 1, m.fdf); b.put(23, 1, m.esi); b.put(27, 5, m.bus); b.put(32, 64, m.ts);
    b.put(99, 29, m.id);
    for (size_t i = 0; i < pl; i++) b[ACF_CAN_HDR + i] = m.payload[i];
    return b;
}
// ACF GPC message: type(7) len(9) gpc_msg_id(48) payload
static inline Bytes acf_gpc(uint64_t code, const std::vector<uint8_t> &payload) {
    size_t pl = payload.size(), pad = (4 - pl % 4) % 4;
    Bytes b(ACF_GPC_HDR + pl + pad, 0);
    b.put(0, 7, ACF_GPC); b.put(7, 9, (ACF_GPC_HDR + pl + pad) / 4); b.put(16, 48, code);
    for (size_t i = 0; i < pl; i++) b[ACF_GPC_HDR + i] = payload[i];
    return b;
}
// ACF VSS message: type(7) len(9) pad(2) mtv(1) addr_mode(2) vss_op(3) vss_datatype(8) msg_timestamp(64) path data pad
static inline Bytes acf_vss(unsigned addr_mode, unsigned op, unsigned datatype, uint64_t ts, const std::vector<uint8_t> &path_bytes,
                            const std::vector<uint8_t> &data_bytes) {
    size_t l = ACF_VSS_HDR + path_bytes.size() + data_bytes.size(), pad = (4 - l % 4) % 4;
    Bytes b(l + pad, 0);
    b.put(0, 7, ACF_VSS); b.put(7, 9, (l + pad) / 4); b.put(16, 2, pad); b.put(18, 1, 1); b.put(19, 2, addr_mode); b.put(21, 3, op);
    b.put(24, 8, datatype); b.put(32, 64, ts);
    size_t o = ACF_VSS_HDR;
    for (auto c : path_bytes) b[o++] = c;
    for (auto c : data_bytes) b[o++] = c;
    return b;
}
// AVTP stream header common to AAF / CVF (24 bytes): subtype sv version mr rsv(2) tv seq rsv(7) tu stream_id ts ...
static inline Bytes stream_header(uint8_t subtype, uint8_t seq, uint64_t stream_id, uint32_t ts, bool tv = true) {
    Bytes b(STREAM_HDR, 0);
    b.put(0, 8, subtype); b.put(8, 1, 1); b.put(15, 1, tv); b.put(16, 8, seq); b.put(32, 64, stream_id); b.put(96, 32, ts);
    return b;
}
// AAF PCM: format(8) nsr(4) rsv(2) channels_per_frame(10) bit_depth(8) stream_data_length(16) rsv(3) sp(1) evt(4) rsv(8)
static inline Bytes aaf_pcm(uint8_t seq, uint64_t stream_id, uint32_t ts, unsigned format, unsigned nsr, unsigned chans, unsigned depth,
                            const std::vector<uint8_t> &payload) {
    Bytes b = stream_header(SUBTYPE_AAF, seq, stream_id, ts);
    b.put(128, 8, format); b.put(136, 4, nsr); b.put(142, 10, chans); b.put(152, 8, depth); b.put(160, 16, payload.size()); b.put(179, 1, 0);
    b.append(payload);
    return b;
}
// CVF H.264: format(8) format_subtype(8) rsv(16) stream_data_length(16) rsv(2) ptv(1) M(1) evt(4) rsv(8) | h264_timestamp(32) | NAL
static inline Bytes cvf_h264(uint8_t seq, uint64_t stream_id, uint32_t ts, const std::vector<uint8_t> &nal) {
    Bytes b = stream_header(SUBTYPE_CVF, seq, stream_id, ts);
    b.put(128, 8, 2); b.put(136, 8, 1); b.put(160, 16, nal.size() + H264_HDR); b.put(179, 1, 1);
    b.resize(STREAM_HDR + H264_HDR, 0);
    b.append(nal);
    return b;
}
// CRF: subtype(8) sv(1) version(3) mr(1) r(1) fs(1) tu(1) sequence_num(8) type(8) stream_id(64) pull(3) base_frequency(29)
//      crf_data_length(16) timestamp_interval(16) crf_data
static inline Bytes crf(uint8_t seq, uint64_t stream_id, unsigned type, unsigned pull, uint32_t base_freq, uint16_t interval,
                        const std::vector<uint64_t> &timestamps) {
    Bytes b(CRF_HDR, 0);
    b.put(0, 8, SUBTYPE_CRF); b.put(8, 1, 1); b.put(16, 8, seq); b.put(24, 8, type); b.put(32, 64, stream_id); b.put(96, 3, pull);
    b.put(99, 29, base_freq); b.put(128, 16, timestamps.size() * 8); b.put(144, 16, interval);
    for (uint64_t t : timestamps) { size_t o = b.size(); b.resize(o + 8, 0); b.put(o * 8, 64, t); }
    return b;
}

}  // namespace wire
